#!/bin/bash
# Rebuilds the harness against the current /repo working tree with hooks on.
# usage: build.sh [profile]   (release | shipping | devlike)
set -e
PROFILE=${1:-release}
cd /verif/harness
export CARGO_NET_OFFLINE=true
export RUSTFLAGS="--cfg ax_verif -Awarnings"
export CARGO_TARGET_DIR=/verif/.build
# cargo's own exit status decides (a failed build must never fall back to a stale binary)
rc=0
if [ "$PROFILE" = release ]; then
  out=$(cargo build --release --offline 2>&1) || rc=$?
else
  out=$(cargo build --profile "$PROFILE" --offline 2>&1) || rc=$?
fi
echo "$out" | grep -Ev "^\s*(Compiling|Finished|Fresh|warning: unused|Blocking|Locking)" || true
[ "$rc" -eq 0 ] || exit 1
test -x /verif/.build/$PROFILE/axmc
