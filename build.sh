#!/bin/bash
# Rebuilds the harness against the current /repo working tree with hooks on.
# usage: build.sh [profile]   (release | shipping | devlike)
set -e
PROFILE=${1:-release}
cd /verif/harness
export CARGO_NET_OFFLINE=true
export RUSTFLAGS="--cfg ax_verif -Awarnings"
export CARGO_TARGET_DIR=/verif/.build
if [ "$PROFILE" = release ]; then
  cargo build --release --offline 2>&1 | grep -Ev "^\s*(Compiling|Finished|Fresh|warning: unused|Blocking|Locking)" || true
else
  cargo build --profile "$PROFILE" --offline 2>&1 | grep -Ev "^\s*(Compiling|Finished|Fresh|Blocking|Locking)" || true
fi
test -x /verif/.build/$PROFILE/axmc
