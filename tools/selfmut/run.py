#!/usr/bin/env python3
"""Applies each of my own property-breaking edits (muts.py) to /repo in turn, runs the quick tier of
the checks named for it, restores /repo, and prints DETECTED / MISSED per (edit, check).
Usage: run.py [name-prefix ...]   (never leaves /repo modified; refuses to start on a dirty tree)"""
import subprocess, sys, os, re, json
sys.path.insert(0, os.path.dirname(__file__))
from muts import MUTS

def sh(cmd, **kw):
    return subprocess.run(cmd, shell=True, capture_output=True, text=True, **kw)

if sh("git -C /repo status --porcelain").stdout.strip():
    sys.exit("refusing: /repo is dirty")
want = sys.argv[1:]
results = {}
for m in MUTS:
    name = m["name"]
    if want and not any(name.startswith(w) for w in want):
        continue
    path = "/repo/" + m["file"]
    src = open(path).read()
    if src.count(m["old"]) != 1:
        print(f"{name}: SKIPPED (old text occurs {src.count(m['old'])} times)"); continue
    try:
        open(path, "w").write(src.replace(m["old"], m["new"]))
        for chk in m["checks"]:
            r = sh(f"/verif/check {chk} --tier quick")
            out = r.stdout + r.stderr
            summ = re.search(r"SUMMARY.*", out)
            viol = len(re.findall(r"^VIOLATION", out, re.M))
            keys = re.findall(r"key=(\S+)", out)[:3]
            if r.returncode == 1 and viol:
                verdict = "DETECTED"
            elif r.returncode == 0:
                verdict = "MISSED"
            else:
                verdict = f"MACHINERY(exit {r.returncode})"
                keys = [l for l in out.splitlines() if "machinery" in l.lower() or "error" in l.lower()][:3]
            print(f"{name} [{m['breaks']}] {chk}: {verdict} {';'.join(keys)}", flush=True)
            results[f"{name}:{chk}"] = verdict
    finally:
        sh("git -C /repo checkout -- .")
json.dump(results, open("/tmp/selfmut_results.json", "w"), indent=1)
