# My own deliberate property-breaking edits (not the sub-agents' seeds, which live in /verif/seeded).
# Each is applied to /repo by run.py, checked with the quick tier of the named checks, and reverted.
# They exist to find holes in the alphabets of the stateful checks; whether the repository's own
# tests still pass with an edit is recorded in DESIGN.md only for the edits a check first missed.
MUTS = [
 # ---- execution loop (C11) --------------------------------------------------------------------
 {"name": "M01-limit-off-by-one", "breaks": "C11", "file": "src/state/execute.rs", "checks": ["C11"],
  "old": "if self.state.executed_instructions_count >= limit {",
  "new": "if self.state.executed_instructions_count > limit {"},
 {"name": "M02-finish-beyond-end", "breaks": "C11", "file": "src/state/execute.rs", "checks": ["C11"],
  "old": "if self.reg_read_64(Register::RIP.into())? == self.code_end_addr {",
  "new": "if self.reg_read_64(Register::RIP.into())? >= self.code_end_addr {"},
 {"name": "M03-execute-swallows-limit", "breaks": "C11", "file": "src/state/execute.rs", "checks": ["C11"],
  "old": "        while self.step().await? {}\n        Ok(())",
  "new": "        loop {\n            match self.step().await {\n                Ok(true) => {}\n                Ok(false) => break,\n                Err(e) if e.to_string().contains(\"Instruction limit\") => break,\n                Err(e) => return Err(e),\n            }\n        }\n        Ok(())"},
 {"name": "M04-refused-step-advances-count", "breaks": "C11", "file": "src/state/execute.rs", "checks": ["C11"],
  "old": "        if self.state.finished {\n            return Err(AxError::from(\n                \"Cannot advance after execution has already finished\",",
  "new": "        if self.state.finished {\n            self.state.executed_instructions_count += 1;\n            return Err(AxError::from(\n                \"Cannot advance after execution has already finished\","},
 # ---- hooks (C12) -----------------------------------------------------------------------------
 {"name": "M05-hooks-see-old-rip", "breaks": "C12", "file": "src/state/execute.rs", "checks": ["C12"],
  "old": "        let rip = instr.next_ip();\n        self.reg_write_64(SupportedRegister::RIP, rip)?;\n\n        let mnem: SupportedMnemonic",
  "new": "        let rip = instr.next_ip();\n\n        let mnem: SupportedMnemonic"},
 {"name": "M06-after-hooks-skip-first", "breaks": "C12", "file": "src/state/hooks.rs", "checks": ["C12"],
  "old": "        for function in functions {\n            let res = match function(ax, mnemonic) {",
  "new": "        for function in functions.iter().skip(if !before && functions.len() > 2 { 1 } else { 0 }) {\n            let res = match function(ax, mnemonic) {"},
 {"name": "M07-stop-in-after-hook-runs-rest", "breaks": "C12", "file": "src/state/hooks.rs", "checks": ["C12"],
  "old": "            if ax.state.finished || res == HookResult::Handled {\n                ax.hooks.running = false;\n                return Ok(());\n            }\n        }\n\n        #[cfg(all(target_arch = \"wasm32\", not(test)))]\n        {",
  "new": "            if (before && ax.state.finished) || res == HookResult::Handled {\n                ax.hooks.running = false;\n                return Ok(());\n            }\n        }\n\n        #[cfg(all(target_arch = \"wasm32\", not(test)))]\n        {"},
 {"name": "M08-register-allowed-inside-hook", "breaks": "C12", "file": "src/state/hooks.rs", "checks": ["C12"],
  "old": "            \"Calling Axecutor::hook_after_mnemonic, hooks_running={}\",\n            self.hooks.running\n        );\n        if self.hooks.running {\n            return Err(AxError::from(\n                \"Cannot add hooks while another hook is running\",\n            ));\n        }\n\n        debug_log!(\n            \"Previous entry: {:?}\",\n            self.hooks.mnemonic_hooks.entry(mnemonic)\n        );\n        self.hooks\n            .mnemonic_hooks\n            .entry(mnemonic)\n            .or_insert_with(Hook::new)\n            .native_after",
  "new": "            \"Calling Axecutor::hook_after_mnemonic, hooks_running={}\",\n            self.hooks.running\n        );\n        if false {\n            return Err(AxError::from(\n                \"Cannot add hooks while another hook is running\",\n            ));\n        }\n\n        debug_log!(\n            \"Previous entry: {:?}\",\n            self.hooks.mnemonic_hooks.entry(mnemonic)\n        );\n        self.hooks\n            .mnemonic_hooks\n            .entry(mnemonic)\n            .or_insert_with(Hook::new)\n            .native_after"},
 # ---- memory areas (C08 C09 C10) --------------------------------------------------------------
 {"name": "M09-overlap-misses-abutting-below", "breaks": "C10", "file": "src/state/memory.rs", "checks": ["C10"],
  "old": "                area.length > 0 && area.start > start && area.start - start < new_len;",
  "new": "                area.length > 0 && area.start > start && area.start - start < new_len - 1;"},
 {"name": "M10-resize-copies-one-byte-less", "breaks": "C10 C13", "file": "src/state/memory.rs", "checks": ["C10", "C13"],
  "old": "            let copy_len = std::cmp::min(old_data.len(), new_data.len());",
  "new": "            let copy_len = std::cmp::min(old_data.len(), new_data.len()).saturating_sub(1);"},
 {"name": "M11-resize-ignores-later-area-when-growing-exactly-to-it", "breaks": "C10", "file": "src/state/memory.rs", "checks": ["C10", "C13"],
  "old": "                        && area.start - start_addr < new_size));",
  "new": "                        && area.start - start_addr < new_size - 1));"},
 {"name": "M12-prot-applies-to-containing-area", "breaks": "C09 C10", "file": "src/state/memory.rs", "checks": ["C09", "C10"],
  "old": "        for area in &mut self.state.memory {\n            if section_start == area.start {\n                area.access = prot;",
  "new": "        for area in &mut self.state.memory {\n            if area.contains(section_start) {\n                area.access = prot;"},
 {"name": "M13-anywhere-steps-by-page", "breaks": "C10", "file": "src/state/memory.rs", "checks": ["C10", "C13", "C20"],
  "old": "            // Always make progress: a zero length would otherwise retry the same address forever\n            start = start.saturating_add(std::cmp::max(length, 1));",
  "new": "            // Always make progress: a zero length would otherwise retry the same address forever\n            start = start.saturating_add(std::cmp::max(length & !0xfff, 1));"},
 {"name": "M14-read-last-byte-rejected", "breaks": "C08", "file": "src/state/memory.rs", "checks": ["C08"],
  "old": "        self.contains(address) && length <= self.length - (address - self.start)",
  "new": "        self.contains(address) && length < self.length - (address - self.start) + (self.length & 1)"},
 # ---- brk / pipes (C13 C14) -------------------------------------------------------------------
 {"name": "M15-brk-shrink-keeps-length", "breaks": "C13", "file": "src/helpers/syscalls.rs", "checks": ["C13"],
  "old": "            ax.state.syscalls.brk_length = new_length;\n",
  "new": "            ax.state.syscalls.brk_length = std::cmp::max(new_length, ax.state.syscalls.brk_length);\n"},
 {"name": "M16-pipe-write-to-other-pipe-when-two", "breaks": "C14", "file": "src/helpers/syscalls.rs", "checks": ["C14"],
  "old": "                .entry(write_end)\n                .and_modify(|content| content.extend_from_slice(&bytes))",
  "new": "                .entry(if ax.state.syscalls.pipes_read_ends.len() > 1 && count == 5 { *ax.state.syscalls.pipes_read_ends.keys().min().unwrap() } else { write_end })\n                .and_modify(|content| content.extend_from_slice(&bytes))"},
 {"name": "M17-pipe-read-count-not-clamped-when-empty", "breaks": "C14", "file": "src/helpers/syscalls.rs", "checks": ["C14"],
  "old": "            ax.reg_write_64(RAX, max_bytes)?;\n",
  "new": "            ax.reg_write_64(RAX, if available_content.is_empty() { count.min(1) } else { max_bytes })?;\n"},
 {"name": "M18-pipe-read-on-write-end-handled", "breaks": "C14", "file": "src/helpers/syscalls.rs", "checks": ["C14"],
  "old": "                // Maybe another hook will handle this fd\n                None => return Ok(HookResult::Unhandled),\n            };\n\n            debug_log!(\n                \"Running native read syscall",
  "new": "                // Maybe another hook will handle this fd\n                None => {\n                    if fd < 8 {\n                        ax.reg_write_64(RAX, 0)?;\n                        return Ok(HookResult::Handled);\n                    }\n                    return Ok(HookResult::Unhandled);\n                }\n            };\n\n            debug_log!(\n                \"Running native read syscall"},
 # ---- registers (C07) -------------------------------------------------------------------------
 {"name": "M19-write32-keeps-upper-when-value-zero", "breaks": "C07 C01", "file": "src/state/registers.rs", "checks": ["C07", "C01"],
  "old": "        let result_value = value as u32 as u64;\n        #[allow(unused_variables)]\n        let old = self.state.registers.insert(*qword_register, result_value);",
  "new": "        let result_value = if value == 0x8000_0000 { value | (self.state.registers.get(qword_register).copied().unwrap_or(0) & 0xFFFF_FFFF_0000_0000) } else { value as u32 as u64 };\n        #[allow(unused_variables)]\n        let old = self.state.registers.insert(*qword_register, result_value);"},
 # ---- trace (C18) -----------------------------------------------------------------------------
 {"name": "M20-trace-level-not-lowered-after-return", "breaks": "C18", "file": "src/helpers/trace.rs", "checks": ["C18"],
  "old": "                TraceVariant::Return => lvl -= 1,",
  "new": "                TraceVariant::Return => lvl -= if last.count > 1 { 0 } else { 1 },"},
 {"name": "M21-jump-collapse-ignores-source", "breaks": "C18", "file": "src/helpers/trace.rs", "checks": ["C18"],
  "old": "                    if last.instr_ip == instr_ip\n                        && last.target == target",
  "new": "                    if last.target == target"},
 # ---- ELF / entry frame (C15 C17) -------------------------------------------------------------
 {"name": "M22-elf-bss-from-file", "breaks": "C15", "file": "src/elf/elf.rs", "checks": ["C15"],
  "old": "                        axecutor.mem_write_bytes(\n                            segment.p_vaddr,\n                            &content[..segment.p_filesz as usize],\n                        )?;",
  "new": "                        let upto = std::cmp::min(memsz as usize, binary.len().saturating_sub(segment.p_offset as usize));\n                        axecutor.mem_write_bytes(\n                            segment.p_vaddr,\n                            &binary[segment.p_offset as usize..segment.p_offset as usize + upto],\n                        )?;"},
]

MUTS += [
 # ---- entry frame (C17) -----------------------------------------------------------------------
 {"name": "M23-argv-pointer-stale-from-9th", "breaks": "C17", "file": "src/state/memory.rs", "checks": ["C17"],
  "old": "            let str_addr = self.mem_init_anywhere(arg_bytes, Some(format!(\"arg{i}\")))?;\n            stack_layout.push(str_addr);",
  "new": "            let str_addr = self.mem_init_anywhere(arg_bytes, Some(format!(\"arg{i}\")))?;\n            stack_layout.push(if i >= 7 { stack_layout[i] } else { str_addr });"},
 {"name": "M24-env-terminator-missing-when-no-env", "breaks": "C17", "file": "src/state/memory.rs", "checks": ["C17"],
  "old": "        // envp[0] = NULL\n        stack_layout.push(0);",
  "new": "        // envp[0] = NULL\n        if !envp.is_empty() || argv.is_empty() {\n            stack_layout.push(0);\n        }"},
 {"name": "M25-string-length-in-chars", "breaks": "C17", "file": "src/state/memory.rs", "checks": ["C17"],
  "old": "            let mut env_bytes = Vec::from(env.as_bytes());\n            env_bytes.push(0);",
  "new": "            let mut env_bytes = Vec::from(env.as_bytes());\n            env_bytes.truncate(env.chars().count());\n            env_bytes.push(0);"},
 # ---- permissions (C09) -----------------------------------------------------------------------
 {"name": "M26-read-allowed-on-exec-only", "breaks": "C09", "file": "src/state/memory.rs", "checks": ["C09"],
  "old": "        if area.access & PROT_READ == 0 {\n            return Err(AxError::from(format!(\n                \"Cannot read {} bytes from memory area{} @ {:#x}, access is {}\",",
  "new": "        if area.access & (PROT_READ | PROT_EXEC) == 0 {\n            return Err(AxError::from(format!(\n                \"Cannot read {} bytes from memory area{} @ {:#x}, access is {}\","},
 # ---- ELF (C15 C16) ---------------------------------------------------------------------------
 {"name": "M27-elf-third-load-gets-rw", "breaks": "C15", "file": "src/elf/elf.rs", "checks": ["C15"],
  "old": "                    axecutor.mem_prot(segment.p_vaddr, elf_flags_to_prot(segment.p_flags))?;\n                }\n                _ => {",
  "new": "                    if axecutor.state.memory.len() < 3 {\n                        axecutor.mem_prot(segment.p_vaddr, elf_flags_to_prot(segment.p_flags))?;\n                    }\n                }\n                _ => {"},
 {"name": "M28-elf-filesz-limit-instead-of-memsz", "breaks": "C16", "file": "src/elf/elf.rs", "checks": ["C16"],
  "old": "                        Some(end) if segment.p_memsz <= MAX_SEGMENT_SIZE => {",
  "new": "                        Some(end) if segment.p_filesz <= MAX_SEGMENT_SIZE => {"},
 # ---- determinism (C20) -----------------------------------------------------------------------
 {"name": "M29-stack-placement-random-on-collision", "breaks": "C20", "file": "src/state/memory.rs", "checks": ["C20", "C10"],
  "old": "                break;\n            }\n            stack_start <<= 1;\n        }\n\n        // Align the stack pointer to 16 bytes",
  "new": "                break;\n            }\n            stack_start <<= 1 + (rand::random::<u8>() & 1);\n        }\n\n        // Align the stack pointer to 16 bytes"},
 # ---- control flow / stack through natdiff (C03 C04 C06) -----------------------------------------
 {"name": "M30-jrcxz-tests-ecx", "breaks": "C03", "file": "src/instructions/jrcxz.rs", "checks": ["C03"],
  "old": "if self.reg_read_64(SupportedRegister::RCX)? == 0 {", "new": "if self.reg_read_64(SupportedRegister::RCX)? & 0xFFFF_FFFF == 0 {"},
]

MUTS += [
 # ---- fetch window (C06 via S9) ---------------------------------------------------------------
 {"name": "M31-fetch-window-14-bytes", "breaks": "C06", "file": "src/state/memory.rs", "checks": ["C06", "C01"],
  "old": "        let slice = &area.data[offset..min(offset + 15, area.data.len())];",
  "new": "        let slice = &area.data[offset..min(offset + 14, area.data.len())];"},
 {"name": "M32-fetch-needs-15-bytes-left", "breaks": "C06 C11", "file": "src/state/memory.rs", "checks": ["C06", "C11"],
  "old": "        let slice = &area.data[offset..min(offset + 15, area.data.len())];",
  "new": "        if offset + 15 > area.data.len() && area.data.len() >= 0x1000 {\n            return Err(self.collect_mem_error_hints(address, 15, \"Read executable\".to_string()));\n        }\n        let slice = &area.data[offset..min(offset + 15, area.data.len())];"},
]

MUTS += [
 # ---- 32-bit addressing reaching bit 31 (C05 via the HI32 page) ---------------------------------
 {"name": "M33-a32-address-sign-extended", "breaks": "C05", "file": "src/helpers/operand.rs", "checks": ["C05"],
  "old": "        if addr_size_32 {\n            addr &= 0xffff_ffff;\n        }",
  "new": "        if addr_size_32 {\n            addr = addr as u32 as i32 as i64 as u64;\n        }"},
]

MUTS += [
 # ---- session 4: index-only 32-bit addressing; size limit bypassed for file-less segments --------
 {"name": "M34-a32-detected-by-base-only", "breaks": "C05", "file": "src/helpers/operand.rs", "checks": ["C05"],
  "old": "        let addr_size_32 = base.map_or(false, is_32bit) || index.map_or(false, is_32bit);",
  "new": "        let addr_size_32 = base.map_or(false, is_32bit);"},
 {"name": "M35-elf-memsz-limit-only-with-file-bytes", "breaks": "C16", "file": "src/elf/elf.rs", "checks": ["C16"],
  "old": "                        Some(end) if segment.p_memsz <= MAX_SEGMENT_SIZE => {",
  "new": "                        Some(end) if segment.p_memsz <= MAX_SEGMENT_SIZE || segment.p_filesz == 0 => {"},
]
