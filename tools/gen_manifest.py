#!/usr/bin/env python3
"""Regenerates /verif/MANIFEST.json from the table below (single source of truth)."""
import json, subprocess

HOOK_COMMITS = ["80140bb"]

NAT = "natdiff"
ST = "stexp"
EN = "enum"

# id -> (engine, built, technique, level text, level note, design ref)
CHECKS = {
 "C01": (NAT, True, "bounded exhaustive single-transition exploration, differential against the native CPU (ptrace single-step)",
   "Every implemented data form x boundary-value alphabet^arity x incoming flag states x register identities is executed once on the real Axecutor and once on the real CPU from the identical state; all 16 GPRs, 16 XMMs, RIP and every byte of the mapped pages are compared. The set of executing (Code, form) pairs is compared with the census of the pinned tree.",
   "Trusts: this sandbox's CPU as reference, iced-x86 decoding (shared with the subject), alphabets/sweep factorisation of DESIGN 3.4. Values outside the alphabets are not explored.", "4/C01"),
 "C02": (NAT, True, "bounded exhaustive single-transition exploration, differential against the native CPU flags under an architectural-definedness mask",
   "All flag-affecting forms x values x all 64 CF/PF/AF/ZF/SF/OF states (quick: 6-8 states unless the form reads flags) x all 256 shift counts; CF/PF/ZF/SF/OF/DF compared with hardware wherever the architecture defines them, and every unaffected flag must keep its value.",
   "Mask of DESIGN 3.5 (iced rflags_undefined + value-dependent shift/mul/div cases); AF only as an unaffected flag.", "4/C02"),
 "C03": (NAT, True, "bounded exhaustive single-transition exploration of every control-transfer form against the native CPU",
   "Every implemented Jcc/JMP/CALL/RET/JRCXZ/JECXZ form x all 64 flag states x displacement, RCX and indirect-target alphabets; RIP after the step compared with hardware. Guard: every conditional branch observed both taken and not taken.",
   "66-prefixed near branches and non-canonical targets are not enumerated (vendor specific / fault class not listed).", "4/C03"),
 "C04": (NAT, False, "bounded exhaustive exploration of stack instructions and of all short stack programs in lock-step with the native CPU", "", "", "4/C04"),
 "C05": (NAT, True, "bounded exhaustive exploration of the addressing-form space against the native CPU",
   "21 probe instructions (LEA 16/32/64, MOV load/store 8-64, ADD RMW, MOVUPS, 8 moffs MOVs) x every ModRM x SIB menu (thorough: all 256) x REX.X/B x displacement sizes/signs x segment prefixes x address-size prefix x register patterns incl. wrap-around; the value LEA returns and the bytes a load/store touches are compared with hardware under the same FS/GS base.",
   "Segment bases limited to user-space values the kernel accepts for ptrace; EA always lands in a mapped page.", "4/C05"),
 "C06": (NAT, True, "bounded exhaustive exploration of fault conditions; outcome class differential against native signals",
   "Division boundary cross product (every quotient-overflow boundary), every memory form at RW / RO / PROT_NONE / unmapped / page-straddling / misaligned placements, plus the outcome of every value/register/shift sweep case: native fault <=> emulator Err, native completion <=> Ok, a panic is always a violation.",
   "Fault classes SIGFPE/SIGSEGV/SIGBUS; native #UD cases dropped and counted; accesses spanning two adjacent areas not enumerated.", "4/C06"),
 "C07": (ST, False, "explicit-state search over register-API call sequences against a register-file model", "", "", "4/C07"),
 "C08": (ST, False, "explicit-state search over memory-API/guest access sequences against a byte-map model", "", "", "4/C08"),
 "C09": (EN, False, "exhaustive enumeration of permission masks x access paths", "", "", "4/C09"),
 "C10": (ST, False, "explicit-state search over area-management call sequences against an interval-set model", "", "", "4/C10"),
 "C11": (EN, False, "exhaustive enumeration of short programs x limits x driver schedules, differential + loop-control model", "", "", "4/C11"),
 "C12": (ST, False, "exhaustive enumeration of hook configurations against a log grammar", "", "", "4/C12"),
 "C13": (ST, False, "explicit-state search over brk/store/load guest operations against a heap model", "", "", "4/C13"),
 "C14": (ST, False, "explicit-state search over pipe/read/write guest operations against FIFO models", "", "", "4/C14"),
 "C15": (EN, False, "exhaustive enumeration of generated well-formed ELF files", "", "", "4/C15"),
 "C16": (EN, False, "exhaustive enumeration of bounded field deviations and truncations of ELF files", "", "", "4/C16"),
 "C17": (EN, False, "exhaustive enumeration of argv/envp/stack-size/layout configurations, frame read back by guest POPs", "", "", "4/C17"),
 "C18": (EN, False, "exhaustive enumeration of short control-flow programs against an independent tracer", "", "", "4/C18"),
 "C19": (EN, False, "exhaustive enumeration of byte-string prefixes and structured encodings, crash/hang freedom", "", "", "4/C19"),
 "C20": (EN, False, "exhaustive enumeration of short programs, differential between independently constructed machines and processes", "", "", "4/C20"),
}

def main():
    checks = []
    na = []
    for pid, (eng, built, tech, text, note, ref) in CHECKS.items():
        if not built:
            na.append({"property_id": pid, "reason": "model checking applies (DESIGN.md section %s) but the check is not built yet; not claimed until it is" % ref})
            continue
        checks.append({
            "property_id": pid,
            "quick_cmd": "./check %s --tier quick" % pid,
            "thorough_cmd": "./check %s --tier thorough" % pid,
            "evidence_file": "/verif/evidence/%s.json" % pid,
            "replay_cmd_template": "./check %s --replay {path}" % pid,
            "engine": eng,
            "level_claimed": {"category": "model_checking", "text": text, "design_ref": "DESIGN.md section " + ref},
            "level_note": note,
            "technique": tech,
        })
    m = {
        "version": 1,
        "setup_cmd": "./setup.sh",
        "hooks": {
            "guard": "ax_verif",
            "enable": "RUSTFLAGS=\"--cfg ax_verif\" (set by /verif/build.sh; the harness crate depends on /repo by path, so every check rebuilds ax-x86 from the current working tree with the hooks on)",
            "baseline_off_cmd": "cd /repo && cargo test --workspace --no-fail-fast --offline",
            "source_commits": HOOK_COMMITS,
            "add_only": True,
        },
        "engines": [
            {"name": "natdiff", "path": "/verif/harness/src/natdiff.rs", "serves_properties": ["C01","C02","C03","C04","C05","C06"],
             "kind_free_text": "bounded-exhaustive single-transition (and short lock-step program) explorer: every enumerated (bytes, state) is executed on the real Axecutor and on the native CPU via ptrace single-step in a stub with the same pages at the same addresses"},
            {"name": "stexp", "path": "/verif/harness/src/stexp.rs", "serves_properties": ["C07","C08","C10","C12","C13","C14"],
             "kind_free_text": "explicit-state search (stateright BFS) whose states contain the live Axecutor next to a reference model"},
            {"name": "enum", "path": "/verif/harness/src", "serves_properties": ["C09","C11","C15","C16","C17","C18","C19","C20"],
             "kind_free_text": "supervised exhaustive enumerators over finite input spaces (forked workers, crash/hang/allocation attribution)"},
        ],
        "checks": checks,
        "not_applicable": na,
        "notes": "See DESIGN.md. Known findings: /verif/known_findings.json. Exit codes: 0 held / 1 VIOLATION / 2 machinery failure.",
    }
    json.dump(m, open("/verif/MANIFEST.json", "w"), indent=1)
    print("claimed:", [c["property_id"] for c in checks])

main()
