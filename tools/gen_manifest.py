#!/usr/bin/env python3
"""Regenerates /verif/MANIFEST.json from the table below (single source of truth)."""
import json, subprocess

def hook_commits():
    out = subprocess.run(["git", "-C", "/repo", "log", "--format=%h %s"], capture_output=True, text=True).stdout
    return [l.split(" ", 1)[0] for l in out.splitlines() if l.split(" ", 1)[1].startswith("verif hooks")]

NAT, ST, EN = "natdiff", "stexp", "enum"

# id -> (engine, technique, level text, level note, design ref)
CHECKS = {
 "C01": (NAT, "bounded exhaustive single-transition exploration, differential against the native CPU (ptrace single-step)",
   "Every implemented data form x boundary-value alphabet^arity x incoming flag states x every addressing category x register identities x 15-byte encodings and end-of-code-page placement (thorough: all 1.8 M census signatures) is executed once on the real Axecutor and once on the real CPU from the identical state; all 16 GPRs, 16 XMMs, RIP and every byte of the mapped pages are compared. The set of executing (Code, form) pairs is compared with the census of the pinned tree.",
   "Trusts: this sandbox's CPU as reference, iced-x86 decoding (shared with the subject), alphabets and sweep factorisation of DESIGN 3.4. Values outside the alphabets are not explored.", "4/C01"),
 "C02": (NAT, "bounded exhaustive single-transition exploration, differential against the native CPU flags under an architectural-definedness mask",
   "All flag-affecting forms x values x all 64 CF/PF/AF/ZF/SF/OF states (quick: 6-8 states unless the form reads flags) x all 256 shift counts, and every register assignment (incl. one register in two operand positions) under all flags clear / set; CF/PF/ZF/SF/OF/DF compared with hardware wherever the architecture defines them, and every unaffected flag must keep its value.",
   "Mask of DESIGN 3.5 (iced rflags_undefined + value-dependent shift/mul/div cases); AF only as an unaffected flag.", "4/C02"),
 "C03": (NAT, "bounded exhaustive single-transition exploration of every control-transfer form against the native CPU",
   "Every implemented Jcc/JMP/CALL/RET/JRCXZ/JECXZ form x all 64 flag states x displacement, RCX and indirect-target alphabets (indirect operands also relative to RSP and with FS/GS overrides under non-zero bases), plus every direct form at 15 bytes and as the last instruction of the code page; RIP after the step compared with hardware (a transfer the emulator refuses where hardware branches counts too); every case runs on a new machine and again on two machines with a history behind them (one return more than calls; three calls deep), so that state the guest cannot see must not change the outcome. Guard: every conditional branch observed both taken and not taken.",
   "66-prefixed near branches and non-canonical targets are not enumerated (vendor specific / fault class not listed); which stack slot RET consumes is C04's subject (both candidate slots hold the same target here).", "4/C03"),
 "C04": (NAT, "bounded exhaustive exploration of stack instructions and of all short stack programs, each transition compared with the native CPU",
   "Every implemented PUSH/POP/CALL/RET form x 20 RSP placements (interior incl. misaligned, both edges of the stack page) x values, and every program of <= 3 (thorough 5) instructions over a 16-instruction stack alphabet: the native CPU generates the reachable states, from each of them the next transition is executed on both sides and RSP, all registers, RIP and the whole stack page are compared; the emulator side runs on a new machine and on two machines with a call/return history. Emulator only: every stack form x 13 RSP values around 0x6001_0000 and 2^32 against the architectural RSP increment in 64-bit arithmetic (the native stack is one page).",
   "The one-slot stack convention of the pinned tree is a recorded open finding (role-based keys store-one-slot-above / value-from-slot-above / target-from-slot-above); any other deviation is a violation.", "4/C04"),
 "C05": (NAT, "bounded exhaustive exploration of the addressing-form space against the native CPU",
   "23 probe instructions (LEA 16/32/64, MOV load/store 8-64, ADD RMW, MOVUPS, JMP and CALL through memory, 8 moffs MOVs) x every ModRM x SIB menu (thorough: all 256) x REX.X/B x displacement sizes/signs x segment prefixes x address-size prefix x register patterns incl. wrap-around and FS/GS bases that carry the sum past 2^32 onto a page above 4 GiB, and a page with bit 31 set for 32-bit addressing; the value LEA returns and the bytes a load/store touches are compared with hardware under the same FS/GS base.",
   "Segment bases limited to user-space values the kernel accepts for ptrace; the effective address always lands in a mapped page.", "4/C05"),
 "C06": (NAT, "bounded exhaustive exploration of fault conditions; outcome class differential against native signals",
   "Division boundary cross product (every quotient-overflow boundary), every addressing form under wrapping value patterns (sweep S3), every memory form at RW / RO / PROT_NONE / unmapped / code-page (R|X) / page-straddling / misaligned placements (flag-reading forms under 4 flag states), 15-byte encodings and end-of-code-page placement of every form, plus the outcome of every value/register/shift sweep case: native fault <=> emulator Err, native completion <=> Ok, a panic is always a violation.",
   "Fault classes SIGFPE/SIGSEGV/SIGBUS; native #UD and non-canonical-target #GP cases dropped and counted; accesses spanning two adjacent areas not enumerated.", "4/C06"),
 "C07": (ST, "explicit-state search (stateright BFS over the live Axecutor) against a register-file model",
   "Depth 3 (thorough 4) from 3 initial fills: depth 1 covers every write of all 68 views x 7 boundary values, non-fitting values, every wrong-width accessor, RIP/EIP/XMM through every accessor; deeper levels interleave colliding writes to the RAX/RSP/R8 families; after every operation all 68 views and RIP are read back and compared with a [u64;17] model; rejected calls must leave the fingerprint unchanged.",
   "The verification hook turns by-design rejections into Err; a panic is reported as a crash.", "4/C07"),
 "C08": (ST, "explicit-state search (stateright BFS over the live Axecutor) against a byte-map model",
   "8 layouts (one area, adjacent, gap, near the top, ending exactly at 2^64, an empty area inside / at the start of a later area, an area at address 0; plus an overlapping layout that exists only where creation wrongly accepts it): transitions are API writes (9 lengths incl. area_len+1 and 2^32 served from a lazily mapped zero region), typed writes 8..128 and guest MOV stores at 14 edge addresses per area + extreme addresses; after every successful write the complete read battery (mem_read_bytes with 12 lengths up to 2^64-1, typed reads, guest MOV loads; at the first two levels also loads through MOVD, MOVQ, MOVUPS, MOVZX, MOVSXD, ADD, CMOVcc (taken and not taken: the load happens either way) and through CALL/JMP/PUSH [mem] with RSP inside an area: a failing load moves neither memory nor RSP) is compared with the model; rejected accesses must change nothing. Depth 2 (thorough 3).",
   "Zero-length accesses: only no-crash/no-change.", "4/C08"),
 "C09": (EN, "exhaustive enumeration of permission masks x access paths",
   "All 8 permission masks x every access path: 12 API accessors (also from inside a native hook), the built-in read() handler copying into the area, 16-byte stores whose upper half lies in a neighbour of every mask, instruction fetch (at the start of an area, after a permission change between two fetches in the same area for all 64 mask pairs, and of an instruction split between an executable area and a neighbour of every mask), every canonical memory-touching instruction form of the census (explicit operand and implicit stack access separately, required permission from iced OpAccess; flag-reading forms under both flag extremes; writing forms also in value states where the store writes back what is there), constructor and ELF segment configurations; denied => Err and memory unchanged, allowed => Ok.",
   "Forms that fail even with full permissions are C06's; conditional accesses may go either way; a guest store is required to succeed only when the area is readable and writable (x86 has no write-only pages and the operand helpers read the destination first).", "4/C09"),
 "C10": (ST, "explicit-state search (stateright BFS over the live Axecutor) against an interval-set model, hang-supervised",
   "Depth 3 from 5 initial machines (code at 0x1000/0x3000/0x400000, generated ELF, ELF + init_stack_program_start) over mem_init_area/zero (7 starts x 7 lengths incl. overlaps of exactly one byte, and 5 requests on the last 32 bytes of the address space), 'anywhere' allocations, init_stack, mem_resize_section, mem_prot and brk as guest syscalls, against an interval-set model with contents; in every state: areas pairwise disjoint and the area list equals the model. A transition that hangs or kills the process is attributed by the supervisor, recorded, masked and the search restarted.",
   "Rejection of a non-overlapping explicit request is not flagged; zero-length areas cover no address.", "4/C10"),
 "C11": (EN, "exhaustive enumeration of short programs x limits x driver schedules; schedule differential + loop-control model",
   "Every program of <= 4 (thorough 5) instructions over a 15-item alphabet (incl. a jump past the end of the code, `pop rax` and `push imm; ret`) x 6 instruction limits x {no stack, init_stack(0x100), init_stack(0x108)} x 4 hook configurations (incl. an after-hook that sets the limit to 3 mid-run), also entered at the second instruction, driven by every schedule (steps only; k steps then execute() for every k): final fingerprint, result and error text must agree, and each run is stepped against a loop-control model built on an independent decode (count+1, fall-through, finish conditions, limit, steps and execute() after the end fail and change nothing); a second drive sets the limit after k executed instructions: it bounds the total.",
   "The state after a step that fails for another reason is compared only between schedules; unbounded loops are driven to a 96-step cap.", "4/C11"),
 "C12": (EN, "exhaustive enumeration of hook configurations, programs and follow-up calls against a log grammar",
   "Every assignment of up to 3 (thorough 4) before-hooks and as many after-hooks with outcomes {Unhandled, Handled, Stop, Error, Mutate RBX, Register-from-inside, Redirect RIP} on `inc rcx`, a logging hook pair on `nop`, 5 programs (one ended by a top-level `ret` that has a hook pair of its own), 5 follow-up API calls; plus `syscall`, `int n`, `int1`, `int3` (instructions that work only when their mnemonic has hooks) x all 256 subsets of logging hooks on their four mnemonics; one instruction of each of the 65 supported mnemonics with a logging hook pair on every mnemonic (dispatch by name); hooks registered between steps (after 0..3 of 6 same-mnemonic instructions, before / after / both, on top of hooks present from the start) run from the next instruction on; the event log written by the instrumented native hooks is checked against an order-agnostic grammar (at most once, must-run, short-circuit, bracketing, foreign hooks, persistence, stop, error, registration whenever idle).",
   "Hook order is documented as undefined; after a Stop or a Handled in the other phase only 'at most once' is demanded of the other phase; a Stop ends its own phase.", "4/C12"),
 "C13": (ST, "explicit-state search (stateright BFS over the live Axecutor) against a heap model",
   "Depth 9 (thorough 11) over guest brk(p) for p in {0, H, H+1, H+0x10, H+0x1000, H+0x1001, H+0x2400, H+0x3000, K, below the base} and guest byte stores/loads at {H, H+1, K-1, middle} in 4 layouts (incl. an area just above the heap), and the host mapping an area above the break once the heap exists, against an (H, K, bytes) model; invariant: the heap never overlaps another area.",
   "brk below the base and accesses at/above the break: crash-freedom only; bytes released by a shrink are forgotten by the model.", "4/C13"),
 "C14": (ST, "explicit-state search (stateright BFS over the live Axecutor) against FIFO models",
   "Depth 8 (thorough 10) over guest pipe()/write/read with <= 2 pipes, both ends of both pipes 4 non-pipe descriptors and 2 descriptors that equal a pipe end only in their low 32 bits, reads and writes on pipe ends with an unmapped buffer (the queue must survive a failing call), sizes {0,1,2,3,5} / {0,1,2,4,8}, descriptor numbers decided by the harness through the seam (distinct and forced-colliding), a user hook registered after the built-in handler; a third machine with writes of 40 000 / 25 537 bytes and reads up to 100 000 bytes (all histories <= 4, whole buffers compared); against a VecDeque per pipe: returned count, exact bytes in buf[..k], rest of the buffer untouched, independence of pipes, non-pipe descriptors reach the user hook.",
   "Wrong-end operations may be refused but move no byte; descriptor collisions: crash-freedom only.", "4/C14"),
 "C15": (EN, "exhaustive enumeration of generated well-formed ELF files, compared with the generator's parameters",
   "Every generated ET_EXEC file over: 1-3 (thorough: 4 over the boundary shapes) PT_LOAD in every program-header order on 4 page slots, in-page offsets {0,0x10,0xE10}, filesz {0,1,0x1F0,to page end,0x1000,0x2000}, bss tail {0,1,to page end,0x1800}, all 8 flag masks (rotating over the segment positions of multi-segment files), non-zero file bytes outside the segments, p_paddr = p_vaddr / 0 alternating, optional PT_PHDR/NOTE/GNU_STACK/GNU_RELRO (over the start of the last segment), optional PT_TLS header with p_filesz < p_memsz over the start of the last segment, 10 symbol-table variants, 2 entry positions (distinct-pages precondition enforced); the loaded image is compared with the writer's parameters: file bytes, zero fill to memsz, permissions, RIP, symbol resolution.",
   "ET_EXEC with p_vaddr != 0 only; dynamic/executable-stack files belong to C16; where FS points after a PT_TLS header is not checked.", "4/C15"),
 "C16": (EN, "exhaustive enumeration of bounded field deviations and truncations of ELF files in supervised workers",
   "9 seeds (3 bundled binaries, 6 generated incl. TLS, dynamic, RELRO, page-sized bss) x 0/1/2/3 header-field deviations over a 19-value boundary alphabet + type constants (all single fields; pairs inside one program header, of the same field in two program headers, in the e_ph* and e_sh* groups and the symtab/strtab headers - thorough: every pair of fields of the file; triples inside each of the first three program headers); the thorough tier repeats the quick enumeration on a build with debug assertions + every truncation length of the generated files and of the header regions of the bundled ones; 200 well-formed files with symbol names of every length around the powers of two up to 4096 in 1- to 4-byte characters at every alignment; each load runs in a worker with catch_unwind, a 1 GiB single-allocation guard, RLIMIT_AS and a hang watchdog: Ok or Err, nothing else.",
   "An allocation above 1 GiB for an input below 1 MiB counts as unrelated to the input size.", "4/C16"),
 "C17": (EN, "exhaustive enumeration of argv/envp/stack-size/layout configurations, frame read back by guest POPs",
   "argc, envc in 0..=8 (thorough 12) x 10 rotations of the string shapes {empty,1,7,8,15,16,17,300 bytes, multi-byte UTF-8, 0x1001 bytes} x 8 stack sizes (0..0x2000 incl. odd) x 4 layouts, plus stacks of 1-4 MiB for small lists, plus a first argument of 40 000 / 70 000 bytes followed by strings of 0..2 bytes; the frame is read back by executing guest `pop rax` instructions and following the pointers; alignment, NUL termination, order, writability, pairwise disjointness of all areas, no collision with the image, space left below RSP >= requested size - 16.",
   "The guest observes the frame through the emulator's own POP; contents of padding are not checked.", "4/C17"),
 "C18": (EN, "exhaustive enumeration of short control-flow programs against an independent tracer; renderers total",
   "Every one of the 34 conditional-jump forms x 64 flag states x 3 RCX values as a single-jump case, and every program of <= 5 (thorough 6) items over 16 control-flow items (quick: lengths 1-4 completely, length 5 as far as a 45 s cap allows - the evidence says `exhaustive: false` and names the index reached) (incl. jmp / call through a pointer slot in the code) (jumps, countdown loop, taken/untaken je, call, ret - transfers whose target is and is not the fall-through address -, push+ret = unmatched return, call/jmp through rax, int3, call/ret pair, one indirect jump taken twice with two targets, direct self-recursion, one ret executed twice with the same target) stepped under an instruction limit (programs shorter than the bound also on a 16-byte stack, where nested calls fault); after every step the structured trace and call stack are compared with an independent tracer (own decode, condition evaluation, run-length collapse, level bookkeeping) and trace()/call_stack()/to_string() are rendered under catch_unwind and an allocation guard.",
   "Nesting depth is read literally (+1 after a call, -1 after a return, also when returns outnumber calls); the entry for a finishing top-level RET is neither required nor forbidden.", "4/C18"),
 "C19": (EN, "exhaustive enumeration of byte-string prefixes and structured encodings in supervised workers: crash/hang freedom",
   "Every 1- and 2-byte code prefix x 4 fillers (thorough: every 3-byte prefix x 2 fillers) and the structured family legacy-prefix x REX x all 512 opcodes x all 256 ModRM x SIB menu, each stepped in 6 (layout, register, FS/GS base) states incl. all-zero / all 2^64-8 registers, areas at both ends of the address space and an execute-only code area; plus the `syscall` instruction with the built-in brk/pipe/exit/arch_prctl handlers installed x 9 numbers x 14 x 12 x 12 argument values x 3 histories; plus every register-direct instruction with an 8-bit immediate x all 256 immediates x 8 values in every register x 2 flag states; plus every program of <= 4 items over 12 control-flow and failing instructions run for up to 10 steps (a failing step renders the history before it); plus every 2-byte prefix x 4 fillers cut to every length 1..14 as the whole code area (also with a short executable, a data or an executable area directly behind it); under catch_unwind, an allocation guard and a hang watchdog: the step returns Ok or Err. The thorough tier repeats the quick enumeration on a build with debug assertions.",
   "Emulator only; built with overflow checks on (the profile the repository's suite runs in).", "4/C19"),
 "C20": (EN, "exhaustive enumeration of short programs; differential between independently constructed machines and processes",
   "Every program of <= 4 (thorough 5) items over 15 instructions/idioms (incl. brk via the built-in handler - query and growth -, a division that may fail, int3, a load, a store and a jump through RBX that fault when RBX is unmapped) x variants A (every register written), B (only RAX RBX RCX RSP written, alphabet closed over them; B1 without syscall handlers, so the rejection text of `syscall` is compared), C (every register holds one unmapped address) D (stack and argument strings placed by init_stack / init_stack_program_start next to the code) E (own 16-item alphabet incl. SETcc into, over-shifts of and self-subtraction of never-written registers: only the low 16 bits of RAX RBX RCX RDX written, items consuming 8/16-bit views) and F (the machine is loaded from a generated ELF file whose symbol table has two names per address), each run on 3 independently constructed machines in this process (the third stepped interleaved with a decoy machine) and once in a separately exec'd process that meets the cases in the opposite order (fresh hash seeds, fresh RNG, different process history); digests of registers, flags, every area, count, trace, call stack, their renderings, result and error text must be equal.",
   "Pipe descriptors are excepted by the statement; to_string() is not among the listed observables.", "4/C20"),
}

def main():
    checks = []
    for pid, (eng, tech, text, note, ref) in CHECKS.items():
        checks.append({
            "property_id": pid,
            "quick_cmd": "./check %s --tier quick" % pid,
            "thorough_cmd": "./check %s --tier thorough" % pid,
            "evidence_file": "/verif/evidence/%s.json" % pid,
            "replay_cmd_template": "./check %s --replay {path}" % pid,
            "engine": eng,
            "level_claimed": {"category": "model_checking", "text": text, "design_ref": "DESIGN.md section " + ref},
            "level_note": note,
            "technique": tech,
        })
    m = {
        "version": 1,
        "setup_cmd": "./setup.sh",
        "hooks": {
            "guard": "ax_verif",
            "enable": "RUSTFLAGS=\"--cfg ax_verif\" (set by /verif/build.sh; the harness crate depends on /repo by path, so every check rebuilds ax-x86 from the current working tree with the hooks on)",
            "baseline_off_cmd": "cd /repo && cargo test --workspace --no-fail-fast --offline",
            "source_commits": hook_commits(),
            "add_only": True,
        },
        "engines": [
            {"name": "natdiff", "path": "/verif/harness/src/natdiff.rs", "serves_properties": ["C01","C02","C03","C04","C05","C06"],
             "kind_free_text": "bounded-exhaustive single-transition (and program-reachable-state) explorer: every enumerated (bytes, state) is executed on the real Axecutor and on the native CPU via ptrace single-step in a stub with the same pages at the same addresses"},
            {"name": "stexp", "path": "/verif/harness/src/stexp.rs", "serves_properties": ["C07","C08","C10","C13","C14"],
             "kind_free_text": "explicit-state search (stateright BFS) whose states contain the live Axecutor next to a reference model; runs inside a supervised worker"},
            {"name": "enum", "path": "/verif/harness/src/enumrun.rs", "serves_properties": ["C09","C11","C12","C15","C16","C17","C18","C19","C20"],
             "kind_free_text": "supervised exhaustive enumerators over finite input spaces (forked workers, crash/hang/allocation attribution)"},
        ],
        "checks": checks,
        "not_applicable": [],
        "notes": "See DESIGN.md. Known findings: /verif/known_findings.json. Exit codes: 0 held (KNOWN-FINDING lines for listed open findings) / 1 VIOLATION / 2 machinery failure.",
    }
    json.dump(m, open("/verif/MANIFEST.json", "w"), indent=1)
    print("claimed:", len(checks))

main()
