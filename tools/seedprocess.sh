#!/bin/bash
# tools/seedprocess.sh <ID> <checks…> — confirm a sub-agent's seed in /tmp/seed/<ID> (with and, if
# needed, without --cfg ax_verif for the demo), store it, remove the worktree, run the named checks.
id="$1"; shift
cd /verif
r=$(tools/seedconfirm.sh "$id" 2>&1 | tail -1)
if ! echo "$r" | grep -q " CONFIRMED"; then
  r=$(tools/seedconfirm.sh "$id" "--cfg ax_verif" 2>&1 | tail -1)
fi
echo "$r"
if echo "$r" | grep -q " CONFIRMED"; then
  git -C /repo worktree remove --force /tmp/seed/$id 2>/dev/null
  tools/seedcheck.sh "$id" "$@" 2>&1 | tail -n $# | cut -c1-220
fi
