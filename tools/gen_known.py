#!/usr/bin/env python3
"""Builds /verif/known_findings.json: open findings (keys taken from check output files given on
the command line as PROP=path) + the hand-maintained list of fixed findings below."""
import json, re, subprocess, sys

def commit_of(subject_start):
    out = subprocess.run(["git", "-C", "/repo", "log", "--format=%h %s"], capture_output=True, text=True).stdout
    for l in out.splitlines():
        h, s = l.split(" ", 1)
        if s.startswith(subject_start):
            return h
    raise SystemExit("no commit with subject starting: " + subject_start)

FIXED = [
 # (properties, commit subject prefix, what failed)
 (["C02"], "fix: ADC r/m,r forms clear a stale overflow flag", "ADC r/m8/16/32, r left OF set when the addition does not overflow (keys Adc_rm*_r*|*|flag:OF|cin=*)"),
 (["C01","C02"], "fix: ADC r/m16/32/64, imm8 sign-extends", "ADC r/m, imm8 added the immediate zero-extended: wrong result and CF/OF/SF/ZF (keys Adc_rm*_imm8|*)"),
 (["C01"], "fix: CMOVAE moves when the carry flag is clear", "CMOVAE condition inverted (keys Cmovae_*|*|reg:dst|cond=*)"),
 (["C01","C06","C09"], "fix: CMOVcc always reads its source", "CMOVcc r32 left the upper half when not taken; memory source not read when the condition is false (keys Cmov*_r32_rm32|*|reg:dst-upper|cond=F, perm|guest-load|allowed-without-R)"),
 (["C01","C09"], "fix: SETB stores 0 when the carry flag is clear", "SETB wrote nothing when CF=0 (keys Setb_rm8|*|cond=F, perm|guest-store|allowed-without-W)"),
 (["C01"], "fix: IDIV r/m8, r/m16, r/m32 sign-extend the divisor", "IDIV 8/16/32-bit treated a negative divisor as unsigned (keys Idiv_rm8/16/32|*|fits+-, fits--)"),
 (["C06","C01"], "fix: DIV and IDIV report a divide error", "quotient overflow completed with a truncated result instead of failing (keys Div_*/Idiv_*|*|outcome:emu_ok/native_SIGFPE|qovf*)"),
 (["C01","C02","C06","C19"], "fix: SHR r/m, imm8 and SHR r/m, CL", "SHR: masked count 0 rewrote flags, masked count 1 left OF stale, 64-bit counts 32..63 wrong, imm8=1 hit assert_ne!, byte/word counts >= 8/16 overflowed a shift"),
 (["C02","C06","C19"], "fix: SHL r/m, imm8 and SHL r/m, CL", "SHL: same count/flag defects as SHR"),
 (["C05","C06","C19","C09"], "fix: MOV with a moffs operand", "all eight moffs MOV forms panicked ('Cannot convert operand to register')"),
 (["C06","C19"], "fix: MOVZX r16/r32/r64, r/m8 accepts a memory source", "MOVZX r, m8 panicked ('Cannot convert operand to register')"),
 (["C05","C06","C19"], "fix: memory operands with the 32-bit address-size prefix", "every memory operand with a 0x67 prefix panicked in mem_addr (reading memory operand base/index register)"),
 (["C05","C19"], "fix: EIP-relative memory operands", "EIP-relative operands panicked ('Unsupported register')"),
 (["C05"], "fix: a CS segment override on a memory operand", "a 2E prefix on a memory operand made the step fail ('Unsupported segment register: CS')"),
 (["C05"], "fix: LEA does not add the FS/GS base", "LEA with an FS/GS override returned offset + segment base"),
 (["C07"], "fix: register accessors reject EIP", "reg_read_*/reg_write_*(EIP) panicked ('Unsupported register')"),
 (["C08","C16"], "fix: memory bounds checks no longer overflow", "address+length overflow in mem_read_bytes / mem_write_bytes / fetch / error hints (panic 'attempt to add with overflow'); areas ending at 2^64 unusable"),
 (["C10","C17"], "fix: creating a memory area is rejected for every kind of overlap", "mem_init_area accepted an area enclosing or running into an existing one; 'anywhere' and stack/string placement returned occupied ranges; argv strings overlapped"),
 (["C10","C13"], "fix: mem_resize_section compares the area with the others", "every resize (and every brk that moves the break) failed: the area collided with itself"),
 (["C10"], "fix: 'anywhere' allocations of length 0 terminate", "mem_init_zero_anywhere(0) / mem_init_anywhere(empty) spun forever once 0x1000 was occupied"),
 (["C12"], "fix: a failing native hook no longer leaves", "after a hook returned an error no hook could be registered any more ('Cannot add hooks while another hook is running')"),
 (["C18"], "fix: rendering a trace with unbalanced returns", "trace() (and step(), which renders it for every error) panicked with 'capacity overflow' once returns outnumbered calls"),
 (["C13"], "fix: brk(0) returns the current program break", "brk(0) returned the heap base after the break had moved"),
 (["C15"], "fix: ELF segments that do not start on a page boundary", "a well-formed file with a segment at in-page offset 0xE10 followed by a segment on the next page failed to load (overlap error)"),
 (["C16"], "fix: ELF segments with absurd memory sizes", "p_memsz of 2^31 and above made the loader allocate that much (abort / 'capacity overflow' / add overflow)"),
 (["C17"], "fix: init_stack_program_start places the entry frame above", "the entry frame was carved out of the requested stack size; sizes below the frame size failed"),
 (["C06"], "fix: XORPS rejects a memory operand that is not 16-byte aligned", "XORPS with a misaligned m128 completed instead of failing (native #GP)"),
 (["C13"], "fix: brk with an address below the heap start", "brk(p) with p below the heap base panicked ('attempt to subtract with overflow')"),
 (["C19"], "fix: PUSH, POP, CALL and RET wrap the stack pointer", "push/pop/call/ret panicked ('attempt to add/subtract with overflow') with RSP at the top or bottom of the address space; found after C19's register states were extended with all-zero / all 2^64-8 and areas at both ends of the address space (keys step|panic@src/instructions/{push,pop,call,ret}.rs(attempt to … with overflow))"),
 (["C16"], "fix: ELF loader no longer overflows computing the TLS end", "a file with a PT_LOAD on the last page of the address space and a PT_TLS header at the same p_vaddr panicked ('attempt to add with overflow' in `segment.p_vaddr + a.len()`); found after C16 gained pairs of the same field in two program headers, prompted by a sub-agent's remark (key elf-load|panic@src/elf/elf.rs(attempt to add with overflow)|pair(same field, two program headers))"),
 (["C19"], "fix: pipe with a descriptor array at the very end of the address space", "`syscall` pipe(rdi) with rdi in the last 8 bytes of a mapped area ending at 2^64 panicked ('attempt to add with overflow' in `fd_ptr + 8`); found by C19's syscall-argument sweep (key syscall|panic@src/helpers/syscalls.rs(attempt to add with overflow))"),
 (["C19"], "fix: brk refuses to grow the heap beyond 1 GiB", "`syscall` brk(p) with a huge p and no area above the heap allocated p - base bytes (2^40 in the sweep: allocation failure aborts the host); found by C19's syscall-argument sweep (key step|oversized-alloc|syscall)"),
 (["C04"], "fix: POP RSP and POP SP leave the popped value", "`pop rsp` / `pop sp` ended with RSP = old RSP + 8 (+2): the increment was written after the destination, overriding the popped value; found when S8a gained templates whose operand is the stack pointer (keys Pop_r64|reg|reg:dst|rsp=*, Pop_r16|reg|reg:dst|rsp=*)"),
 (["C16"], "fix: debug builds no longer panic on an unknown ELF segment type", "in builds with debug assertions an unknown p_type with p_vaddr == 0 panicked inside a debug_log! argument ('Unknown segment type'); found by the dev-like profile run of the thorough tier (keys devlike|elf-load|panic@src/elf/elf.rs(Unknown segment type)|*)"),
]

OPEN_WHAT = {
 "C04": "PUSH/POP/CALL/RET use a stack convention shifted by one slot: a push stores at the OLD RSP (one slot above where hardware stores), pop/ret load from RSP+size. Not repairable under the constraints: the unedited tests push_ax/push_rbx/push_0x1234/... and the call tests assert the shifted memory cells (e.g. value at 0x1000 after a push with RSP=0x1000 into an area [0x1000,0x1008)).",
 "IDIV64": "IDIV r/m64 reads its divisor as unsigned (128-bit widening without sign extension): wrong quotient/remainder for negative divisors and a wrong divide-error condition. Not repairable under the constraints: the unedited test idiv_rax_rdx_1273656987127188586 asserts the result of the unsigned reading (RAX=0x16564028cda3664a for a negative divisor).",
}

def main():
    findings = []
    for props, subj, what in FIXED:
        c = commit_of(subj)
        for p in props:
            findings.append({"property": p, "key": "", "status": "fixed", "commit": c, "what": "fixed: property=%s %s %s" % (p, c, what)})
    for arg in sys.argv[1:]:
        prop, path = arg.split("=", 1)
        for l in open(path):
            m = re.match(r"\s+key=(.*?) what=(.*)$", l.rstrip("\n"))
            k = re.match(r"KNOWN-FINDING: property=\S+ (\S+) ", l)
            if m:
                key = m.group(1)
            elif k:
                key = k.group(1)
            else:
                continue
            if prop == "C04":
                what = OPEN_WHAT["C04"]
            elif key.startswith("Idiv_rm64"):
                what = OPEN_WHAT["IDIV64"]
            else:
                raise SystemExit("unexpected open key for %s: %s" % (prop, key))
            findings.append({"property": prop, "key": key, "status": "open", "what": what})
    json.dump({"note": "open = genuine defect recorded, not repaired (reason in 'what'); fixed = repaired by the named commit in /repo, suppresses nothing. Never written at run time.",
               "findings": findings}, open("/verif/known_findings.json", "w"), indent=1)
    print(len([f for f in findings if f["status"] == "open"]), "open,", len([f for f in findings if f["status"] == "fixed"]), "fixed entries")

main()
