#!/bin/bash
# tools/seedcheck.sh <seed-dir-name> <check ids...>
# Applies /verif/seeded/<name>/patch.diff to /repo, runs the given checks (quick), restores /repo.
# Prints one line per check: DETECTED (exit 1 + VIOLATION) / MISSED (exit 0) / MACHINERY (exit 2).
name="$1"; shift
patch="/verif/seeded/$name/patch.diff"
[ -f "$patch" ] || { echo "no $patch"; exit 2; }
if ! git -C /repo diff --quiet; then echo "/repo has uncommitted changes"; exit 2; fi
git -C /repo apply "$patch" || { echo "patch does not apply"; exit 2; }
trap 'git -C /repo checkout -- . ' EXIT
for id in "$@"; do
  out=$(cd /verif && ./check "$id" --tier "${SEED_TIER:-quick}" 2>&1)
  code=$?
  nviol=$(echo "$out" | grep -c "^VIOLATION")
  keys=$(echo "$out" | grep "^  key=" | sed 's/ what=.*//;s/^  key=//' | head -4 | tr '\n' ';')
  case $code in
    1) echo "$name $id DETECTED violations=$nviol keys=$keys";;
    0) echo "$name $id MISSED";;
    *) echo "$name $id MACHINERY exit=$code: $(echo "$out" | grep -E 'MACHINERY|error' | head -3)";;
  esac
done
