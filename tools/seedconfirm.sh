#!/bin/bash
# tools/seedconfirm.sh <ID> [extra RUSTFLAGS]  — confirms a seeded change in /tmp/seed/<ID> myself:
# suite passes with it, demo fails with it, demo passes without it. Then stores it under /verif/seeded/<ID>/.
id="$1"; wt="/tmp/seed/$id"; flags="$2"
cd "$wt" || exit 2
export CARGO_TARGET_DIR="$wt/target" CARGO_NET_OFFLINE=true
git diff -- src > /tmp/seed/$id.patch
[ -s /tmp/seed/$id.patch ] || { echo "$id: empty patch"; exit 2; }
suite=$(cargo test --offline --lib 2>&1 | grep "test result" | head -1)
demo_with=$(RUSTFLAGS="$flags" cargo test --offline --test seed_demo 2>&1 | grep "test result" | head -1)
git checkout -q -- src     # (no git stash: the stash stack is shared between worktrees)
demo_without=$(RUSTFLAGS="$flags" cargo test --offline --test seed_demo 2>&1 | grep "test result" | head -1)
git apply /tmp/seed/$id.patch
echo "$id suite(with change): $suite"
echo "$id demo with change:   $demo_with"
echo "$id demo without:       $demo_without"
ok=1
echo "$suite" | grep -q "2300 passed; 0 failed" || ok=0
echo "$demo_with" | grep -q "FAILED" || ok=0
echo "$demo_without" | grep -q "ok\." || ok=0
if [ $ok = 1 ]; then
  mkdir -p /verif/seeded/$id
  cp /tmp/seed/$id.patch /verif/seeded/$id/patch.diff
  cp "$wt/tests/seed_demo.rs" /verif/seeded/$id/seed_demo.rs
  echo "$id CONFIRMED"
else
  echo "$id NOT CONFIRMED"
fi
