#!/bin/bash
# MANIFEST.setup_cmd: offline build of the harness (and with it ax-x86 with hooks on).
set -e
cd /verif
mkdir -p .build evidence replays
./build.sh release
echo "setup ok"
