//! The sweeps S1..S8 of DESIGN §3.4 and the orchestration shared by C01–C06.

use crate::common::{machinery_error, Finding, Findings, Run, Tier};
use crate::natdiff::*;
use crate::native::*;
use crate::sup::{self, SupOpts, WorkerCtx};
use crate::tmpl::*;
use iced_x86::{Code, FlowControl, InstructionInfoFactory, Mnemonic, OpKind, Register};
use serde_json::{json, Value};
use std::collections::{BTreeMap, BTreeSet};

pub const OFF: usize = 0x800;
pub const IP: u64 = CODE + OFF as u64;
pub const ALL_FLAGS: u64 = 0x8d5;

pub fn flag_state(k: u32) -> u64 {
    // k in 0..64 -> CF PF AF ZF SF OF
    let bits = [0x1u64, 0x4, 0x10, 0x40, 0x80, 0x800];
    let mut f = 0;
    for (b, m) in bits.iter().enumerate() {
        if k & (1 << b) != 0 {
            f |= m;
        }
    }
    f
}
pub fn all_flag_states() -> Vec<u64> {
    (0..64).map(flag_state).collect()
}
pub fn quick_flag_states() -> Vec<u64> {
    vec![0, ALL_FLAGS, 0x1, 0x40, 0x880, 0x14]
}

pub type DiffFilter = fn(&CaseResult, &Diff) -> bool;

pub struct Sink<'a> {
    pub ctx: &'a mut WorkerCtx,
    pub idx: u64,
    pub w: NatWorker,
    pub stats: NatStats,
    pub findings: Findings,
    pub filter: DiffFilter,
    pub fac: InstructionInfoFactory,
    pub tag: String,
    pub unplaceable: u64,
    pub deadline: std::time::Instant,
    pub capped: bool,
}

impl<'a> Sink<'a> {
    #[inline]
    pub fn next(&mut self) -> bool {
        let i = self.idx;
        self.idx += 1;
        if self.capped {
            return false;
        }
        if i & 0xFFF == 0 && std::time::Instant::now() > self.deadline {
            self.capped = true;
            return false;
        }
        self.ctx.want(i)
    }
    pub fn run(&mut self, c: Case) {
        self.ctx.describe(&format!("{}|{}", crate::common::hex(&c.bytes), c.tag));
        let (r, more) = self.w.run_with_histories(&c);
        let st = &mut self.stats;
        st.cases += 1;
        *st.per_tag.entry(c.tag.clone()).or_insert(0) += 1;
        let fkey = format!("{:?}|{}", r.code, r.form);
        match r.bucket {
            Bucket::BothCompleted => {
                st.both_completed += 1;
                if !st.ok_forms.contains(&fkey) {
                    st.ok_forms.insert(fkey.clone());
                }
            }
            Bucket::BothFault => st.both_fault += 1,
            Bucket::Unimplemented => {
                st.unimplemented += 1;
                if !st.unimpl_forms.contains(&fkey) {
                    st.unimpl_forms.insert(fkey.clone());
                }
            }
            Bucket::NativeUd => st.native_ud += 1,
            Bucket::NativeNonCanonical => st.native_noncanonical += 1,
            Bucket::OutcomeMismatch => st.outcome_mismatch += 1,
        }
        if !st.seen_forms.contains(&fkey) {
            st.seen_forms.insert(fkey);
        }
        st.native_hashes.insert({
            let mut f = crate::common::Fp::new();
            f.bytes(&c.bytes);
            f.u64(r.native_hash);
            f.0
        });
        st.pre_hashes.insert({
            let mut f = crate::common::Fp::new();
            f.bytes(&c.bytes);
            f.u64(c.sigma.rip);
            for v in c.sigma.gpr {
                f.u64(v);
            }
            for v in c.sigma.xmm {
                f.u64(v as u64);
                f.u64((v >> 64) as u64);
            }
            f.u64(c.sigma.flags);
            f.u64(c.sigma.fs);
            f.u64(c.sigma.gs);
            for (a, b) in &c.pokes {
                f.u64(*a);
                f.bytes(b);
            }
            f.0
        });
        if st.samples.len() < 2 && (st.cases % 1009 == 1) {
            st.samples.push(json!({"case": c.to_json(), "emulator": r.emu.brief(), "native": sig_name(r.native_sig), "differences": r.diffs.len()}));
        }
        // branch taken / not-taken vacuity bookkeeping
        if let Some(d) = decode_at(c.at_rip(), c.sigma.rip) {
            if d.instr.flow_control() == FlowControl::ConditionalBranch && r.native_sig == 0 {
                let e = st
                    .flags_seen
                    .entry(format!("{:?}", d.instr.mnemonic()))
                    .or_insert([0, 0]);
                // taken iff native rip != fall-through: recomputed from the native hash is not
                // possible here, so use the architectural condition on the input
                let taken = match d.instr.mnemonic() {
                    Mnemonic::Jrcxz => c.sigma.gpr[1] == 0,
                    Mnemonic::Jecxz => c.sigma.gpr[1] & 0xFFFF_FFFF == 0,
                    _ => eval_cc(d.instr.condition_code(), c.sigma.flags).unwrap_or(false),
                };
                e[taken as usize] += 1;
            }
        }
        let mut any = false;
        // control transfers and stack instructions once more on machines that have a history
        // behind them: what the guest cannot see (call bookkeeping, trace, counters) must not
        // change what it can. Only differences the new machine did not show are recorded.
        let mut results = more;
        if let Some((key, p)) = self.w.history_problem(&r, &c) {
            self.findings.add(
                &key,
                || format!("a straight-line history of calls and returns did not run: {p}"),
                || json!({"engine": "natdiff", "case": c.to_json()}),
            );
            any = true;
        }
        self.stats.aged_runs += results.len() as u64;
        results.insert(0, r);
        for r in &results {
        for d in &r.diffs {
            if !(self.filter)(r, d) {
                continue;
            }
            any = true;
            let key = format!("{}|{}|{}", r.subject, d.observable, r.class);
            let instr_txt = decode_at(c.at_rip(), c.sigma.rip)
                .map(|d| format!("{}", d.instr))
                .unwrap_or_default();
            let is_new = !self.findings.map.contains_key(&key);
            self.findings.add(
                &key,
                || format!("`{}`: {}", instr_txt, d.detail),
                || json!({"engine": "natdiff", "case": c.to_json()}),
            );
            if is_new {
                // stream new classes at once: a later crash of this worker must not lose them
                let f = &self.findings.map[&key];
                let v = json!({"early_finding": {"key": f.key, "what": f.what, "witness": f.witness, "count": 0}});
                self.ctx.emit(&v);
                self.ctx.flush();
            }
        }
        }
        if any {
            self.stats.cases_with_diff += 1;
        }
    }
}

// ------------------------------------------------------------------------------------------
// template selection

fn tmpl_cost(t: &Tmpl) -> (u32, u32, Vec<u8>) {
    let d = decode_at(&t.bytes, IP).unwrap();
    let i = &d.instr;
    let mut c = 0u32;
    // prefixes beyond what the form needs are visible as longer byte strings; count legacy ones
    for b in t.bytes.iter() {
        match *b {
            0x67 | 0xF2 | 0xF3 | 0x2E | 0x64 | 0x65 | 0xF0 => c += 10,
            _ => break,
        }
    }
    for k in 0..i.op_count() {
        if i.op_kind(k) == OpKind::Register {
            let r = i.op_register(k);
            if r.is_gpr() {
                match reg_group(r) {
                    "H" | "SP" | "BP" => c += 5,
                    "B" if has_mem(i) => c += 5,
                    "R12" | "R13" | "R14" | "R8" => c += 1,
                    _ => {}
                }
            }
        }
    }
    // same register in two operand positions hides operand mix-ups
    if i.op_count() >= 2 && i.op0_kind() == OpKind::Register && i.op1_kind() == OpKind::Register {
        if i.op0_register().full_register() == i.op1_register().full_register() {
            c += 8;
        }
    }
    let mut m = 0u32;
    if has_mem(i) {
        if i.memory_base() != Register::RBX {
            m += 4;
        }
        if i.memory_index() != Register::None {
            m += 8;
        }
        m += i.memory_displ_size();
        if i.segment_prefix() != Register::None {
            m += 16;
        }
        // moffs / absolute forms have no base: they are the only shape of their Code
    }
    (c, m, t.bytes.clone())
}

/// One canonical template per (Code, reg/mem form).
pub fn canonical_templates(c: &Census) -> Vec<Tmpl> {
    let mut best: BTreeMap<(String, &'static str), (Tmpl, (u32, u32, Vec<u8>))> = BTreeMap::new();
    for t in c.by_sig.values() {
        let k = (format!("{:?}", t.code), t.form);
        let cost = tmpl_cost(t);
        match best.get(&k) {
            Some((_, old)) if *old <= cost => {}
            _ => {
                best.insert(k, (t.clone(), cost));
            }
        }
    }
    best.into_values().map(|(t, _)| t).collect()
}

/// For every Code with a memory form: one template per distinct addressing category
/// (scale of the index or none, displacement size, base kind, REX-extended index/base), so
/// that the value sweeps of C01/C02/C06 do not only ever see `[rbx]`.
pub fn diverse_templates(c: &Census) -> Vec<Tmpl> {
    let mut best: BTreeMap<(String, String), Tmpl> = BTreeMap::new();
    for t in c.by_sig.values() {
        if t.form != "mem" || !t.sig.contains("|P0|") {
            continue;
        }
        let d = match decode_at(&t.bytes, IP) {
            Some(d) => d,
            None => continue,
        };
        let i = &d.instr;
        let base = i.memory_base();
        let index = i.memory_index();
        let cat = format!(
            "s{}d{}b{}x{}",
            if index == Register::None { 0 } else { i.memory_index_scale() },
            i.memory_displ_size(),
            match base {
                Register::None => "-",
                Register::RIP => "rip",
                _ => "r",
            },
            (base != Register::None && base.is_gpr() && base.number() >= 8) as u8 + 2 * (index != Register::None && index.number() >= 8) as u8
        );
        let k = (format!("{:?}", t.code), cat);
        match best.get(&k) {
            Some(old) if (old.bytes.len(), &old.bytes) <= (t.bytes.len(), &t.bytes) => {}
            _ => {
                best.insert(k, t.clone());
            }
        }
    }
    best.into_values().collect()
}

#[derive(Clone, Copy, PartialEq, Eq)]
pub enum Scope {
    /// data instructions only (C01): no control transfer, no stack instruction
    Data,
    /// everything but indirect transfers and returns (their targets need S7's alphabet)
    AllDirect,
}

pub fn in_scope(i: &iced_x86::Instruction, s: Scope) -> bool {
    if native_denied(i) {
        return false;
    }
    match s {
        Scope::Data => i.flow_control() == FlowControl::Next && !i.is_stack_instruction(),
        Scope::AllDirect => !matches!(
            i.flow_control(),
            FlowControl::IndirectBranch | FlowControl::IndirectCall | FlowControl::Return
        ),
    }
}

// ------------------------------------------------------------------------------------------
// generic value sweep over one template

pub struct ValueOpts<'b> {
    pub nvals: usize,
    pub flags: &'b [u64],
    /// None = template filler only; Some(n) = first n of the immediate alphabet; usize::MAX = all 256 for imm8
    pub imms: Option<usize>,
    /// all 256 values for a CL count input
    pub all_cl: bool,
    pub target: u64,
    pub idx_val: u64,
    pub disp_val: i64,
    pub extra_class: &'b str,
    pub fs: u64,
    pub gs: u64,
    pub rsp: u64,
    pub max_arity_full: usize,
}

impl<'b> Default for ValueOpts<'b> {
    fn default() -> Self {
        ValueOpts {
            nvals: 8,
            flags: &[0],
            imms: Some(5),
            all_cl: false,
            target: DEFAULT_TARGET,
            idx_val: 0x10,
            disp_val: 0x10,
            extra_class: "",
            fs: 0,
            gs: 0,
            rsp: STACK + 0x800,
            max_arity_full: 2,
        }
    }
}

pub fn value_cases(t: &Tmpl, o: &ValueOpts, sink: &mut Sink) {
    let d = match decode_at(&t.bytes, IP) {
        Some(d) => d,
        None => return,
    };
    let i = d.instr;
    let mut sigma0 = default_sigma(OFF);
    sigma0.fs = o.fs;
    sigma0.gs = o.gs;
    sigma0.gpr[4] = o.rsp;
    let mut bytes = t.bytes.clone();
    let mut ea = 0u64;
    if has_mem(&i) {
        match place(&bytes, IP, o.target, o.idx_val, o.disp_val, 0xABCD_EF01_0000_0000, &mut sigma0.gpr, o.fs, o.gs) {
            Some(p) => {
                bytes = p.bytes;
                ea = p.ea;
            }
            None => {
                sink.unplaceable += 1;
                return;
            }
        }
    }
    let an = analyze(&mut sink.fac, &i);
    // immediates
    let isz = d.co.immediate_size();
    let ioff = d.co.immediate_offset();
    let is_branch = matches!(
        i.op0_kind(),
        OpKind::NearBranch16 | OpKind::NearBranch32 | OpKind::NearBranch64
    ) && i.op_count() > 0;
    let imm_vals: Vec<Option<u64>> = if isz == 0 || is_branch {
        vec![None]
    } else {
        match o.imms {
            None => vec![None],
            Some(n) if n == usize::MAX && isz == 1 => (0..256u64).map(Some).collect(),
            Some(n) => imm_alphabet(isz).into_iter().take(n).map(Some).collect(),
        }
    };
    // alphabets per input
    let arity = an.inputs.len();
    let nv = if arity > o.max_arity_full { o.nvals.min(6) } else { o.nvals };
    let mut alph64: Vec<Vec<u64>> = vec![];
    let mut alph128: Vec<Vec<u128>> = vec![];
    for l in &an.inputs {
        match l {
            Loc::Xmm(_) => {
                alph64.push(vec![]);
                alph128.push(alphabet128(nv.min(8)));
            }
            Loc::Mem(16) => {
                alph64.push(vec![]);
                alph128.push(alphabet128(nv.min(8)));
            }
            Loc::Gpr(Register::CL) if o.all_cl && is_shift(&i) => {
                alph64.push((0..256).collect());
                alph128.push(vec![]);
            }
            l => {
                alph64.push(alphabet(l.bits(), nv));
                alph128.push(vec![]);
            }
        }
    }
    let radix: Vec<usize> = (0..arity)
        .map(|k| if alph64[k].is_empty() { alph128[k].len() } else { alph64[k].len() })
        .collect();
    let total: usize = radix.iter().product::<usize>().max(1);
    for imm in &imm_vals {
        let mut b2 = bytes.clone();
        if let Some(v) = imm {
            patch(&mut b2, ioff, isz, *v);
        }
        for combo in 0..total {
            for f in o.flags {
                if !sink.next() {
                    continue;
                }
                let mut s = sigma0.clone();
                s.flags = *f;
                let mut pokes = vec![];
                let mut rem = combo;
                for (k, l) in an.inputs.iter().enumerate() {
                    let digit = rem % radix[k];
                    rem /= radix[k];
                    match l {
                        Loc::Gpr(r) => set_gpr(&mut s.gpr, *r, alph64[k][digit]),
                        Loc::Xmm(n) => s.xmm[*n] = alph128[k][digit],
                        Loc::Mem(n) => {
                            if *n == 16 {
                                pokes.push((ea, alph128[k][digit].to_le_bytes().to_vec()));
                            } else {
                                pokes.push((ea, alph64[k][digit].to_le_bytes()[..*n].to_vec()));
                            }
                        }
                    }
                }
                // pokes must stay inside the shared pages (placement sweeps move the target)
                pokes.retain(|(a, b)| in_pages(*a, b.len()));
                sink.run(Case {
                    bytes: b2.clone(),
                    off: OFF,
                    sigma: s,
                    pokes,
                    tag: sink.tag.clone(),
                    extra_class: o.extra_class.to_string(),
                    subject: String::new(),
                });
            }
        }
    }
}

pub fn in_pages(a: u64, n: usize) -> bool {
    REGIONS
        .iter()
        .any(|(_, base, _)| a >= *base && a + n as u64 <= *base + PAGE)
}

pub fn is_shift(i: &iced_x86::Instruction) -> bool {
    matches!(i.mnemonic(), Mnemonic::Shl | Mnemonic::Shr | Mnemonic::Sal | Mnemonic::Sar)
}

// ------------------------------------------------------------------------------------------
// the sweeps

pub struct Plan<'a> {
    pub census: &'a Census,
    pub canon: &'a [Tmpl],
    pub diverse: &'a [Tmpl],
    pub tier: Tier,
}

/// S1d: every Code's memory form at every addressing category (not only `[rbx]`), few values.
pub fn s1d_shape_diversity(p: &Plan, scope: Scope, sink: &mut Sink) {
    sink.tag = "S1d".into();
    let flags = [0u64, ALL_FLAGS];
    for t in p.diverse {
        let d = decode_at(&t.bytes, IP).unwrap();
        if !in_scope(&d.instr, scope) {
            continue;
        }
        let o = ValueOpts {
            nvals: if p.tier.is_thorough() { 4 } else { 3 },
            flags: &flags,
            imms: Some(2),
            idx_val: 0x18,
            max_arity_full: 1,
            ..Default::default()
        };
        value_cases(t, &o, sink);
    }
}

pub fn s1_values_flags(p: &Plan, scope: Scope, sink: &mut Sink) {
    sink.tag = "S1".into();
    let all = all_flag_states();
    let quick = quick_flag_states();
    for t in p.canon {
        let d = decode_at(&t.bytes, IP).unwrap();
        if !in_scope(&d.instr, scope) {
            continue;
        }
        let reads_flags = d.instr.rflags_read() != 0;
        let flags: &[u64] = if p.tier.is_thorough() || reads_flags { &all } else { &quick };
        let o = ValueOpts {
            nvals: if p.tier.is_thorough() { 14 } else { 8 },
            flags,
            imms: Some(6),
            ..Default::default()
        };
        value_cases(t, &o, sink);
    }
}

pub fn s1p_all_signatures(p: &Plan, scope: Scope, sink: &mut Sink) {
    sink.tag = "S1'".into();
    let flags = [0u64, ALL_FLAGS];
    for t in p.census.by_sig.values() {
        let d = decode_at(&t.bytes, IP).unwrap();
        if !in_scope(&d.instr, scope) {
            continue;
        }
        let o = ValueOpts {
            nvals: if p.tier.is_thorough() { 8 } else { 3 },
            flags: &flags,
            imms: Some(2),
            max_arity_full: 1,
            ..Default::default()
        };
        value_cases(t, &o, sink);
    }
}

pub fn s2_register_identity(p: &Plan, scope: Scope, sink: &mut Sink) {
    s2_register_identity_flags(p, scope, sink, false)
}

/// `both_flag_states`: all flags clear and all flags set in the quick tier too (C02: a shortcut
/// keyed on WHICH registers an instruction names may forget a flag the general path handles).
pub fn s2_register_identity_flags(p: &Plan, scope: Scope, sink: &mut Sink, both_flag_states: bool) {
    sink.tag = "S2".into();
    let flags = [0u64, ALL_FLAGS];
    for t in p.census.by_id.values() {
        let d = decode_at(&t.bytes, IP).unwrap();
        if !in_scope(&d.instr, scope) {
            continue;
        }
        let o = ValueOpts {
            nvals: if p.tier.is_thorough() { 3 } else { 2 },
            flags: if p.tier.is_thorough() || both_flag_states { &flags } else { &flags[..1] },
            imms: Some(1),
            ..Default::default()
        };
        // alphabet order is 0, 1, max...: use the filler background too
        value_cases(t, &o, sink);
    }
}

pub fn s4_shift_counts(p: &Plan, sink: &mut Sink) {
    sink.tag = "S4".into();
    let all = all_flag_states();
    let quick = vec![0u64, ALL_FLAGS, 0x1, 0x800, 0x801, 0x40, 0x80, 0x14];
    for t in p.canon {
        let d = decode_at(&t.bytes, IP).unwrap();
        if !is_shift(&d.instr) {
            continue;
        }
        let o = ValueOpts {
            nvals: if p.tier.is_thorough() { 14 } else { 6 },
            flags: if p.tier.is_thorough() { &all } else { &quick },
            imms: Some(usize::MAX),
            all_cl: true,
            ..Default::default()
        };
        value_cases(t, &o, sink);
    }
}

pub fn s5_division(p: &Plan, sink: &mut Sink) {
    sink.tag = "S5".into();
    for t in p.canon {
        let d = decode_at(&t.bytes, IP).unwrap();
        let i = d.instr;
        if !matches!(i.mnemonic(), Mnemonic::Div | Mnemonic::Idiv) {
            continue;
        }
        let w = op_bits(&i);
        if w == 0 {
            continue;
        }
        let mut sigma0 = default_sigma(OFF);
        let mut bytes = t.bytes.clone();
        let mut ea = 0;
        if has_mem(&i) {
            match place(&bytes, IP, DEFAULT_TARGET, 0x10, 0x10, 0, &mut sigma0.gpr, 0, 0) {
                Some(pl) => {
                    bytes = pl.bytes;
                    ea = pl.ea;
                }
                None => continue,
            }
        }
        let mask: u128 = if w == 64 { u64::MAX as u128 } else { (1u128 << w) - 1 };
        let divisors = alphabet(w, 14);
        let halves = alphabet(w, if p.tier.is_thorough() { 14 } else { 8 });
        let mut dividends: Vec<u128> = vec![];
        for dv in &divisors {
            dividends.clear();
            // plain cross product of the halves
            for hi in &halves {
                for lo in &halves {
                    dividends.push(((*hi as u128) << w) | *lo as u128);
                }
            }
            // straddle every quotient boundary for this divisor (unsigned and signed readings)
            let dvu = *dv as u128;
            let dvs: i128 = {
                let sh = 128 - w;
                ((dvu << sh) as i128) >> sh
            };
            for q in [mask, mask + 1, mask >> 1, (mask >> 1) + 1] {
                for r in [0u128, dvu.saturating_sub(1)] {
                    dividends.push(q.wrapping_mul(dvu).wrapping_add(r));
                    dividends.push(q.wrapping_mul(dvu).wrapping_sub(1));
                }
            }
            let smin: i128 = -(1i128 << (w - 1));
            for q in [smin, smin - 1, smin + 1, -smin - 1, -smin, -1, 1] {
                for r in [0i128, 1, -1] {
                    dividends.push(q.wrapping_mul(dvs).wrapping_add(r) as u128);
                }
            }
            for dd in dividends.iter() {
                if !sink.next() {
                    continue;
                }
                let mut s = sigma0.clone();
                // dividend halves
                match w {
                    8 => set_gpr(&mut s.gpr, Register::AX, (*dd & 0xFFFF) as u64),
                    16 => {
                        set_gpr(&mut s.gpr, Register::AX, (*dd & 0xFFFF) as u64);
                        set_gpr(&mut s.gpr, Register::DX, ((*dd >> 16) & 0xFFFF) as u64);
                    }
                    32 => {
                        set_gpr(&mut s.gpr, Register::EAX, (*dd & 0xFFFF_FFFF) as u64);
                        set_gpr(&mut s.gpr, Register::EDX, ((*dd >> 32) & 0xFFFF_FFFF) as u64);
                    }
                    _ => {
                        s.gpr[0] = *dd as u64;
                        s.gpr[2] = (*dd >> 64) as u64;
                    }
                }
                let mut pokes = vec![];
                if has_mem(&i) {
                    pokes.push((ea, dv.to_le_bytes()[..(w / 8) as usize].to_vec()));
                } else {
                    set_gpr(&mut s.gpr, i.op0_register(), *dv);
                }
                sink.run(Case {
                    bytes: bytes.clone(),
                    off: OFF,
                    sigma: s,
                    pokes,
                    tag: "S5".into(),
                    extra_class: String::new(),
                    subject: String::new(),
                });
            }
        }
    }
}

/// Placement sweep: every canonical memory form at six placements.
pub fn s6_placement(p: &Plan, sink: &mut Sink) {
    sink.tag = "S6".into();
    let flags_plain = [0u64];
    // conditional instructions (CMOVcc, SETcc, ADC...) are placed under both flag extremes: a
    // false condition must not make the access disappear
    let flags_cond = [0u64, ALL_FLAGS, 0x1, 0x40];
    for t in p.canon {
        let d = decode_at(&t.bytes, IP).unwrap();
        let i = d.instr;
        if !has_mem(&i) || !in_scope(&i, Scope::AllDirect) {
            continue;
        }
        let an = analyze(&mut sink.fac, &i);
        let sz = an.mem_size.max(1) as u64;
        let mut placements: Vec<(u64, String)> = vec![
            (RW + 0x800, "rw".into()),
            (RO + 0x800, "ro".into()),
            (NONE + 0x800, "none".into()),
            (UNMAPPED + 0x800, "unmapped".into()),
            // the code page itself: readable and executable, not writable
            (CODE + 0x400, "rx".into()), // (the instruction itself sits at CODE + OFF = CODE + 0x800)
            (RW, "rw-first".into()),
            (RW + PAGE - sz, "rw-last".into()),
        ];
        if sz > 1 {
            placements.push((RW + PAGE - sz + 1, "straddle-end".into()));
            placements.push((RW + PAGE - 1, "straddle-end".into()));
            placements.push((RW - 1, "straddle-start".into()));
        }
        if sz == 16 {
            placements.push((RW + 0x808, "misaligned16".into()));
            placements.push((RW + 0x801, "misaligned16".into()));
        } else if sz > 1 {
            placements.push((RW + 0x801, "rw-odd".into()));
        }
        let flags: &[u64] = if i.rflags_read() != 0 { &flags_cond } else { &flags_plain };
        for (target, name) in placements {
            let o = ValueOpts {
                nvals: 2,
                flags,
                imms: Some(2),
                target,
                idx_val: 0x8,
                disp_val: 0x10,
                extra_class: &name,
                ..Default::default()
            };
            // odd targets cannot satisfy shapes that need divisibility; value_cases counts them
            value_cases(t, &o, sink);
        }
    }
}

/// S9: encoding length and code placement.  Every (Code, form) once more (a) padded with
/// ignored segment prefixes to the architectural maximum of 15 bytes, (b) as the last instruction
/// of the code page (the 15-byte fetch window must be clipped at the end of the area, and RIP
/// ends up exactly at the end of the code), (c) both.
pub fn s9_encoding(p: &Plan, scope: Scope, sink: &mut Sink) {
    sink.tag = "S9".into();
    let pads = [0x3Eu8, 0x2E, 0x26, 0x36];
    for t in p.canon {
        let d0 = match decode_at(&t.bytes, IP) {
            Some(d) => d,
            None => continue,
        };
        if !in_scope(&d0.instr, scope) {
            continue;
        }
        let plain = t.bytes[..d0.instr.len()].to_vec();
        let mut padded: Vec<u8> = vec![];
        for k in 0..15usize.saturating_sub(plain.len()) {
            padded.push(pads[k % 4]);
        }
        padded.extend_from_slice(&plain);
        let mut variants: Vec<(Vec<u8>, usize, &str)> = vec![(plain.clone(), PAGE as usize - plain.len(), "end-of-code-page")];
        match decode_at(&padded, IP) {
            Some(dp) if dp.instr.code() == d0.instr.code() && dp.instr.len() == 15 => {
                variants.push((padded.clone(), OFF, "len15"));
                variants.push((padded.clone(), PAGE as usize - 15, "len15,end-of-code-page"));
            }
            _ => {}
        }
        for (bytes, off, class) in variants {
            let ip = CODE + off as u64;
            let d = match decode_at(&bytes, ip) {
                Some(d) => d,
                None => continue,
            };
            for f in [0u64, ALL_FLAGS] {
                if !sink.next() {
                    continue;
                }
                let mut s = default_sigma(off);
                s.flags = f;
                s.gpr[1] = 2; // a non-zero, small RCX: shifts by CL and JRCXZ/loops stay benign
                let mut b = bytes.clone();
                let mut pokes = vec![];
                if has_mem(&d.instr) {
                    match place(&b, ip, DEFAULT_TARGET, 0x10, 0x10, 0xABCD_EF01_0000_0000, &mut s.gpr, 0, 0) {
                        Some(pl) => {
                            b = pl.bytes;
                            // a positive operand value: this sweep varies the encoding, the
                            // value-dependent behaviour (and its one open finding, IDIV r/m64
                            // with a negative divisor) belongs to S1/S5
                            let n = analyze(&mut sink.fac, &d.instr).mem_size.clamp(1, 16);
                            let pat = [0x08u8, 0x07, 0x06, 0x05, 0x04, 0x03, 0x02, 0x01, 0x18, 0x17, 0x16, 0x15, 0x14, 0x13, 0x12, 0x11];
                            pokes.push((pl.ea, pat[..n].to_vec()));
                        }
                        None => {
                            sink.unplaceable += 1;
                            continue;
                        }
                    }
                }
                sink.run(Case {
                    bytes: b,
                    off,
                    sigma: s,
                    pokes,
                    tag: "S9".into(),
                    extra_class: class.to_string(),
                    subject: String::new(),
                });
            }
        }
    }
}

/// S3: addressing forms.  Probe opcodes × every ModRM/SIB/REX.X/B/displacement/segment/address
/// size × register value patterns.
pub fn s3_addressing(p: &Plan, sink: &mut Sink) {
    sink.tag = "S3".into();
    let thorough = p.tier.is_thorough();
    // (legacy 66?, REX.W?, opcode bytes, has modrm, immediate bytes, name)
    struct Probe {
        p66: bool,
        w: bool,
        op: &'static [u8],
        modrm: bool,
        reg: u8,
        kind: &'static str,
    }
    let probes = [
        Probe { p66: true, w: false, op: &[0x8D], modrm: true, reg: 2, kind: "lea16" },  // lea r16
        Probe { p66: false, w: false, op: &[0x8D], modrm: true, reg: 2, kind: "lea32" }, // lea r32
        Probe { p66: false, w: true, op: &[0x8D], modrm: true, reg: 2, kind: "lea64" },  // lea r64
        Probe { p66: false, w: false, op: &[0x8A], modrm: true, reg: 2, kind: "load8" }, // mov r8, m8
        Probe { p66: true, w: false, op: &[0x8B], modrm: true, reg: 2, kind: "load16" },  // mov r16, m16
        Probe { p66: false, w: false, op: &[0x8B], modrm: true, reg: 2, kind: "load32" }, // mov r32, m32
        Probe { p66: false, w: true, op: &[0x8B], modrm: true, reg: 2, kind: "load64" },  // mov r64, m64
        Probe { p66: false, w: false, op: &[0x88], modrm: true, reg: 2, kind: "store8" }, // mov m8, r8
        Probe { p66: true, w: false, op: &[0x89], modrm: true, reg: 2, kind: "store16" },  // mov m16, r16
        Probe { p66: false, w: false, op: &[0x89], modrm: true, reg: 2, kind: "store32" }, // mov m32, r32
        Probe { p66: false, w: true, op: &[0x89], modrm: true, reg: 2, kind: "store64" },  // mov m64, r64
        Probe { p66: false, w: false, op: &[0x01], modrm: true, reg: 2, kind: "rmw32" }, // add m32, r32
        Probe { p66: false, w: false, op: &[0x0F, 0x10], modrm: true, reg: 2, kind: "load128" }, // movups xmm, m128
        // indirect transfers: the address the target is LOADED from (the loaded qword is poked to
        // a valid code address; read from anywhere else it is an address-derived pattern)
        Probe { p66: false, w: false, op: &[0xFF], modrm: true, reg: 4, kind: "jmp-mem" },  // jmp qword [m]
        Probe { p66: false, w: false, op: &[0xFF], modrm: true, reg: 2, kind: "call-mem" }, // call qword [m]
        Probe { p66: false, w: false, op: &[0xA0], modrm: false, reg: 0, kind: "moffs-load8" }, // mov al, moffs8
        Probe { p66: true, w: false, op: &[0xA1], modrm: false, reg: 0, kind: "moffs-load16" },
        Probe { p66: false, w: false, op: &[0xA1], modrm: false, reg: 0, kind: "moffs-load32" },
        Probe { p66: false, w: true, op: &[0xA1], modrm: false, reg: 0, kind: "moffs-load64" },
        Probe { p66: false, w: false, op: &[0xA2], modrm: false, reg: 0, kind: "moffs-store8" },
        Probe { p66: true, w: false, op: &[0xA3], modrm: false, reg: 0, kind: "moffs-store16" },
        Probe { p66: false, w: false, op: &[0xA3], modrm: false, reg: 0, kind: "moffs-store32" },
        Probe { p66: false, w: true, op: &[0xA3], modrm: false, reg: 0, kind: "moffs-store64" },
    ];
    let segs: Vec<Option<u8>> = if thorough {
        vec![None, Some(0x64), Some(0x65), Some(0x2E), Some(0x3E), Some(0x26), Some(0x36)]
    } else {
        vec![None, Some(0x64), Some(0x65), Some(0x2E)]
    };
    let sibs: Vec<u8> = if thorough {
        (0..=255u8).collect()
    } else {
        let mut v: Vec<u8> = SIB_MENU.to_vec();
        for s in [0x40u8, 0x80, 0xC0, 0x1C, 0x5D, 0x9E, 0xDF, 0x04, 0x0C, 0x2D, 0x65, 0xAD, 0xE4, 0x23, 0x99, 0x7E] {
            if !v.contains(&s) {
                v.push(s);
            }
        }
        v
    };
    // (index value, garbage for the upper half under 32-bit addressing, segment base, target
    // in the page above 4 GiB). The last group exists for FS/GS forms only: with a base of
    // 2^32 or one whose sum with the 32-bit offset carries out of bit 31, "truncate, then add
    // the base" (hardware) and "add the base, then truncate" differ (seed C05b).
    let patterns: Vec<(u64, u64, u64, u8)> = if thorough {
        vec![
            (0x10, 0, 0, 0),
            (0, 0xABCD_EF01_0000_0000, 0x1000, 0),
            (0xFFFF_FFFF_FFFF_FFF8, 0xFFFF_FFFF_0000_0000, 0x0000_7FFF_FFFF_E000, 0),
            (0x8000_0000_0000_0000, 0x1_0000_0000, 0x0000_7000_0000_0000, 0),
            (0x1_0000_0008, 0x8000_0000_0000_0000, 0x10, 0),
            (0x7FFF_FFFF_FFFF_FFF8, 0x1234_5678_0000_0000, 0x2000_0000, 0),
            (0xFFFF_FFF8, 0xFFFF_FFFF_0000_0000, 0x0000_0001_8000_0000, 0),
            (0x2000_0000_0000_0008, 0x7FFF_FFFF_0000_0000, 0x8, 0),
            (0x10, 0xABCD_EF01_0000_0000, 0x1_0000_0000, 1),
            (0x8, 0xFFFF_FFFF_0000_0000, 0xFFFF_F000, 1),
            (0xFFFF_FFF8, 0x1234_5678_0000_0000, 0x1_4FFF_F000, 1),
            (0x8000_0008, 0, 0xC000_0000, 1),
            (0x10, 0xABCD_EF01_0000_0000, 0, 2),
            (0xFFFF_FFF8, 0xFFFF_FFFF_0000_0000, 0x1000, 2),
        ]
    } else {
        vec![
            (0x10, 0, 0x1000, 0),
            (0xFFFF_FFFF_FFFF_FFF8, 0xABCD_EF01_0000_0000, 0x0000_7FFF_FFFF_E000, 0),
            (0x8000_0001_0000_0008, 0xFFFF_FFFF_0000_0000, 0x0000_7000_0000_0000, 0),
            (0x10, 0xABCD_EF01_0000_0000, 0x1_0000_0000, 1),
            (0x8, 0xFFFF_FFFF_0000_0000, 0xFFFF_F000, 1),
            (0x10, 0xABCD_EF01_0000_0000, 0, 2),
        ]
    };
    let disp8s: Vec<i64> = if thorough { vec![0x10, -0x10, 0x7F, -0x80, 0] } else { vec![0x10, -0x80] };
    let disp32s: Vec<i64> = if thorough {
        vec![0x1000, -0x1000, 0x7FFF_FFF0, -0x8000_0000, 0]
    } else {
        vec![0x1008, -0x8000_0000]
    };
    let mut buf: Vec<u8> = Vec::with_capacity(20);
    for pr in probes.iter() {
        for seg in &segs {
            for a32 in [false, true] {
                for rexxb in 0..4u8 {
                    let modrms: Vec<u8> = if pr.modrm {
                        (0..3u8)
                            .flat_map(|m| (0..8u8).map(move |rm| (m << 6) | rm))
                            .collect()
                    } else {
                        vec![0]
                    };
                    if !pr.modrm && rexxb != 0 {
                        continue;
                    }
                    for modrm in modrms {
                        let needs_sib = pr.modrm && (modrm & 7) == 4;
                        let sib_list: &[u8] = if needs_sib { &sibs } else { &[0] };
                        for sib in sib_list {
                            buf.clear();
                            if let Some(s) = seg {
                                buf.push(*s);
                            }
                            if a32 {
                                buf.push(0x67);
                            }
                            if pr.p66 {
                                buf.push(0x66);
                            }
                            let rex = 0x40 | ((pr.w as u8) << 3) | rexxb;
                            if rex != 0x40 {
                                buf.push(rex);
                            }
                            buf.extend_from_slice(pr.op);
                            if pr.modrm {
                                buf.push(modrm | (pr.reg << 3));
                                if needs_sib {
                                    buf.push(*sib);
                                }
                            }
                            buf.extend_from_slice(&[0; 10]);
                            let d = match decode_at(&buf, IP) {
                                Some(d) => d,
                                None => continue,
                            };
                            let i = d.instr;
                            let bytes = buf[..i.len()].to_vec();
                            let dsz = d.co.displacement_size();
                            let has_regs = i.memory_base() != Register::None && i.memory_base() != Register::RIP && i.memory_base() != Register::EIP
                                || i.memory_index() != Register::None;
                            let disps: &[i64] = if !has_regs {
                                &[0]
                            } else {
                                match dsz {
                                    1 => &disp8s,
                                    4 => &disp32s,
                                    _ => &[0],
                                }
                            };
                            let shape = format!(
                                "as{},seg{},b{},i{}",
                                if a32 { 32 } else { 64 },
                                match i.segment_prefix() {
                                    Register::None => "-".to_string(),
                                    Register::FS => "FS".to_string(),
                                    Register::GS => "GS".to_string(),
                                    _ => "ignored".to_string(),
                                },
                                match i.memory_base() {
                                    Register::None => "-",
                                    Register::RIP => "rip",
                                    Register::EIP => "eip",
                                    _ => "r",
                                },
                                if i.memory_index() == Register::None { "-" } else { "r" }
                            );
                            for disp in disps {
                                for (iv, hi, sb, sel) in &patterns {
                                    let seg_fsgs = matches!(i.segment_prefix(), Register::FS | Register::GS);
                                    let high = *sel == 1;
                                    let high = &high;
                                    if *high && !seg_fsgs {
                                        continue;
                                    }
                                    // the page with bit 31 set: 32-bit addressing only (that is
                                    // where zero- vs sign-extension of a 32-bit sum or disp32 shows)
                                    if *sel == 2 && !a32 {
                                        continue;
                                    }
                                    if !sink.next() {
                                        continue;
                                    }
                                    let mut s = default_sigma(OFF);
                                    // segment bases: absolute forms can only reach the low
                                    // target with a small base
                                    let sbase = if has_regs || *high { *sb } else { *sb & 0xFFFF };
                                    s.fs = sbase;
                                    s.gs = sbase ^ 0x100;
                                    let target = if *high { HI + 0x800 } else if *sel == 2 { HI32 + 0x800 } else { DEFAULT_TARGET };
                                    let sbase = if *sel == 2 && !seg_fsgs { 0 } else { sbase };
                                    s.fs = sbase;
                                    s.gs = sbase ^ 0x100;
                                    let pl = match place(&bytes, IP, target, *iv, *disp, *hi, &mut s.gpr, s.fs, s.gs) {
                                        Some(pl) => pl,
                                        None => {
                                            sink.unplaceable += 1;
                                            continue;
                                        }
                                    };
                                    let transfer = pr.kind == "jmp-mem" || pr.kind == "call-mem";
                                    if transfer && !in_pages(pl.ea, 8) {
                                        continue;
                                    }
                                    if pr.kind == "call-mem" && !in_pages(s.gpr[4].wrapping_sub(16), 24) {
                                        // the push of the return address needs a mapped slot
                                        continue;
                                    }
                                    sink.run(Case {
                                        bytes: pl.bytes,
                                        off: OFF,
                                        sigma: s,
                                        pokes: if transfer { vec![(pl.ea, (CODE + 0x40).to_le_bytes().to_vec())] } else { vec![] },
                                        tag: "S3".into(),
                                        extra_class: shape.clone(),
                                        subject: pr.kind.to_string(),
                                    });
                                }
                            }
                        }
                    }
                }
            }
        }
    }
}

/// S7: control transfers.
pub fn s7_control(p: &Plan, sink: &mut Sink) {
    sink.tag = "S7".into();
    let all = all_flag_states();
    let rcxs = [0u64, 1, 1 << 32, (1 << 32) + 1, u64::MAX, 0xFFFF_FFFF];
    let targets = [
        CODE + 0x10,
        CODE + 0xFFF,
        RW + 0x800,
        UNMAPPED + 0x10,
        0x10,
        0xFFFF_8000_0000_0000,
        0x0000_7FFF_FFFF_FFFF,
        0,
    ];
    for t in p.canon.iter().chain(extra_control_templates(p.census).iter()) {
        let d = decode_at(&t.bytes, IP).unwrap();
        let i = d.instr;
        if native_denied(&i) {
            continue;
        }
        match i.flow_control() {
            FlowControl::ConditionalBranch | FlowControl::UnconditionalBranch | FlowControl::Call => {
                // direct: displacement alphabet
                let isz = d.co.immediate_size();
                let ioff = d.co.immediate_offset();
                if isz == 0 {
                    continue;
                }
                let len = i.len() as i64;
                let disps: Vec<i64> = match isz {
                    1 => vec![0, 1, 0x7F, -1, -2, -128, -len],
                    4 => vec![0, 1, 0x7FFF_FFFF, -1, -len, -0x8000_0000, 0x1000, -0x800],
                    _ => vec![0],
                };
                let uses_rcx = matches!(i.mnemonic(), Mnemonic::Jrcxz | Mnemonic::Jecxz);
                let flags: Vec<u64> = if i.rflags_read() != 0 { all.clone() } else { vec![0, ALL_FLAGS] };
                for disp in &disps {
                    for f in &flags {
                        for rcx in rcxs.iter().take(if uses_rcx { rcxs.len() } else { 1 }) {
                            if !sink.next() {
                                continue;
                            }
                            let mut b = t.bytes.clone();
                            patch(&mut b, ioff, isz, *disp as u64);
                            let mut s = default_sigma(OFF);
                            s.flags = *f;
                            if uses_rcx {
                                s.gpr[1] = *rcx;
                            }
                            sink.run(Case {
                                bytes: b,
                                off: OFF,
                                sigma: s,
                                pokes: vec![],
                                tag: "S7".into(),
                                extra_class: String::new(),
                                subject: String::new(),
                            });
                        }
                    }
                }
            }
            FlowControl::IndirectBranch | FlowControl::IndirectCall => {
                let via_rsp = i.op0_kind() == OpKind::Register && i.op0_register().full_register() == Register::RSP;
                let stack_targets = [STACK + 0x800, STACK + 0x808, STACK + 0x7f8];
                let tlist: &[u64] = if via_rsp { &stack_targets } else { &targets };
                for tg in tlist {
                    for f in [0u64, ALL_FLAGS] {
                        if !sink.next() {
                            continue;
                        }
                        let mut s = default_sigma(OFF);
                        s.flags = f;
                        let mut bytes = t.bytes.clone();
                        let mut pokes = vec![];
                        if matches!(i.segment_prefix(), Register::FS | Register::GS) {
                            // small bases: the slot without the base lies in the same page and
                            // holds something else, so a dropped override shows in RIP
                            s.fs = 0x100;
                            s.gs = 0x180;
                        }
                        if has_mem(&i) {
                            match place(&bytes, IP, DEFAULT_TARGET, 0x10, 0x10, 0, &mut s.gpr, s.fs, s.gs) {
                                Some(pl) => {
                                    bytes = pl.bytes;
                                    pokes.push((pl.ea, tg.to_le_bytes().to_vec()));
                                }
                                None => continue,
                            }
                        } else if i.op0_kind() == OpKind::Register {
                            set_gpr(&mut s.gpr, i.op0_register(), *tg);
                        }
                        sink.run(Case {
                            bytes,
                            off: OFF,
                            sigma: s,
                            pokes,
                            tag: "S7".into(),
                            extra_class: String::new(),
                            subject: String::new(),
                        });
                    }
                }
            }
            FlowControl::Return => {
                for tg in &targets {
                    if !sink.next() {
                        continue;
                    }
                    let s = default_sigma(OFF);
                    // the same target in the slot hardware pops and in the one above it, so the
                    // comparison of RIP does not depend on which slot is consumed (that is C04)
                    let rsp = s.gpr[4];
                    let pokes = vec![
                        (rsp, tg.to_le_bytes().to_vec()),
                        (rsp + 8, tg.to_le_bytes().to_vec()),
                    ];
                    sink.run(Case {
                        bytes: t.bytes.clone(),
                        off: OFF,
                        sigma: s,
                        pokes,
                        tag: "S7".into(),
                        extra_class: String::new(),
                        subject: String::new(),
                    });
                }
            }
            _ => {}
        }
    }
}

/// Addressing shapes for memory-indirect transfers beyond the canonical `[rbx]`.
fn extra_control_templates(c: &Census) -> Vec<Tmpl> {
    let mut out = vec![];
    for t in c.by_sig.values() {
        if !matches!(t.code, Code::Jmp_rm64 | Code::Call_rm64) || t.form != "mem" {
            continue;
        }
        // no extra legacy prefix, one representative of: base+index*scale+disp8, rip-relative
        if t.sig.contains("|P0|")
            && (t.sig.contains("bRIPi-")
                || (t.sig.contains("b64Ai64C") && t.sig.contains("d1g"))
                // operand addressed relative to RSP: the target must be fetched with the
                // stack pointer the instruction started with
                || (t.sig.contains("b64SPi-") && t.sig.contains("d1g")))
        {
            out.push(t.clone());
        }
    }
    for (k, t) in c.by_id.iter() {
        if (k.starts_with("Call_rm64|") || k.starts_with("Jmp_rm64|")) && (k.contains("|RSP,") || k.contains("|R12,")) {
            out.push(t.clone());
        }
    }
    // FS / GS overrides (run with non-zero segment bases): the target is fetched from base + EA
    for t in c.by_sig.values() {
        if !matches!(t.code, Code::Jmp_rm64 | Code::Call_rm64) || t.form != "mem" {
            continue;
        }
        if (t.sig.contains("|P7|") || t.sig.contains("|P8|"))
            && t.sig.contains("|X0|")
            && (t.sig.contains("gFS") || t.sig.contains("gGS"))
            && (t.sig.contains("b64Ai-") || t.sig.contains("b-i-"))
        {
            out.push(t.clone());
        }
    }
    out
}

/// Stack instructions whose operand IS the stack pointer or is addressed through it, and the
/// REX.B register forms: `push rsp` (pushes the value before the decrement), `pop rsp` (the
/// loaded value wins over the increment), `push/pop r12`, `push/pop qword [rsp+disp8]` (PUSH
/// computes the source address before, POP the destination address after RSP moves).
pub fn extra_stack_templates(c: &Census) -> Vec<Tmpl> {
    let mut out = vec![];
    for (k, t) in c.by_id.iter() {
        let code = k.split('|').next().unwrap_or("");
        if matches!(code, "Push_r64" | "Pop_r64" | "Push_r16" | "Pop_r16")
            && ["|RSP,", "|SP,", "|R12,", "|R12W,", "|RBP,", "|R8,"].iter().any(|r| k.contains(r))
        {
            out.push(t.clone());
        }
    }
    for t in c.by_sig.values() {
        if !matches!(t.code, Code::Push_rm64 | Code::Pop_rm64 | Code::Push_rm16 | Code::Pop_rm16) || t.form != "mem" {
            continue;
        }
        if t.sig.contains("|P0|") && t.sig.contains("b64SPi-") && t.sig.contains("d1g") {
            out.push(t.clone());
        }
    }
    out
}

/// S8a: stack instructions × RSP placement × values.
pub fn s8_stack_single(p: &Plan, sink: &mut Sink) {
    sink.tag = "S8a".into();
    // placement classes: interior of the stack page, its low edge (a push crosses into the
    // unmapped guard below), its high edge (a pop crosses into the guard above)
    let rsps: Vec<(u64, &str)> = vec![
        (STACK + 0x800, "in"),
        (STACK + 0x801, "in"),
        (STACK + 0x802, "in"),
        (STACK + 0x804, "in"),
        (STACK + 0x807, "in"),
        (STACK + 16, "in"),
        (STACK + PAGE - 24, "in"),
        (STACK, "lo-edge"),
        (STACK + 2, "lo-edge"),
        (STACK + 8, "lo-edge"),
        (STACK + PAGE - 8, "hi-edge"),
        (STACK + PAGE - 2, "hi-edge"),
        (STACK + PAGE, "hi-edge"),
        (STACK + PAGE - 16, "hi-edge"),
    ];
    let flags = [0u64, ALL_FLAGS];
    let mut extra = extra_control_templates(p.census);
    extra.extend(extra_stack_templates(p.census));
    for t in p.canon.iter().chain(extra.iter()) {
        let d = decode_at(&t.bytes, IP).unwrap();
        let i = d.instr;
        if !i.is_stack_instruction() || native_denied(&i) {
            continue;
        }
        for (rsp, name) in &rsps {
            match i.flow_control() {
                FlowControl::Return | FlowControl::IndirectBranch | FlowControl::IndirectCall => {
                    // valid target in every slot the instruction could consume
                    for f in flags.iter().take(1) {
                        if !sink.next() {
                            continue;
                        }
                        let mut s = default_sigma(OFF);
                        s.flags = *f;
                        s.gpr[4] = *rsp;
                        let mut pokes = vec![];
                        let mut bytes = t.bytes.clone();
                        let tg = CODE + 0x40;
                        if i.flow_control() == FlowControl::Return {
                            // distinct valid targets per slot so the consumed slot is visible
                            for k in -2i64..=2 {
                                let a = (*rsp as i64 + 8 * k) as u64;
                                if in_pages(a, 8) {
                                    pokes.push((a, (CODE + (0x100 + 0x10 * k) as u64).to_le_bytes().to_vec()));
                                }
                            }
                        } else if has_mem(&i) {
                            match place(&bytes, IP, DEFAULT_TARGET, 0x10, 0x10, 0, &mut s.gpr, 0, 0) {
                                Some(pl) => {
                                    bytes = pl.bytes;
                                    pokes.push((pl.ea, tg.to_le_bytes().to_vec()));
                                }
                                None => continue,
                            }
                            s.gpr[4] = *rsp;
                            if i.memory_base() == Register::RSP || i.memory_index() == Register::RSP {
                                // operand relative to the stack pointer under test
                                pokes.clear();
                                match eval_ea(&bytes, IP, &s.gpr, 0, 0) {
                                    Some(ea) if in_pages(ea, 8) => pokes.push((ea, tg.to_le_bytes().to_vec())),
                                    _ => continue,
                                }
                            }
                        } else if i.op0_kind() == OpKind::Register {
                            if i.op0_register().full_register() == Register::RSP {
                                continue;
                            }
                            set_gpr(&mut s.gpr, i.op0_register(), tg);
                        }
                        sink.run(Case {
                            bytes,
                            off: OFF,
                            sigma: s,
                            pokes,
                            tag: "S8a".into(),
                            extra_class: format!("rsp={name}"),
                            subject: String::new(),
                        });
                    }
                }
                _ => {
                    let o = ValueOpts {
                        nvals: if p.tier.is_thorough() { 8 } else { 4 },
                        flags: &flags[..1],
                        imms: Some(5),
                        rsp: *rsp,
                        extra_class: &format!("rsp={name}"),
                        ..Default::default()
                    };
                    value_cases(t, &o, sink);
                }
            }
        }
    }
}

/// S8b: every program of length <= `maxlen` over a 16-instruction stack alphabet.  The native
/// CPU generates the reachable states; from each of them the one next transition is compared
/// (so exploration continues past a divergence: the next step starts from the native state).
pub fn s8b_programs(p: &Plan, maxlen: usize, sink: &mut Sink) {
    sink.tag = "S8b".into();
    let alphabet: [&[u8]; 16] = [
        &[0x50],                         // push rax
        &[0x53],                         // push rbx
        &[0x66, 0x50],                   // push ax
        &[0x6A, 0xFF],                   // push -1
        &[0x68, 0x40, 0x09, 0x00, 0x40], // push 0x40000940
        &[0x59],                         // pop rcx
        &[0x5A],                         // pop rdx
        &[0x66, 0x59],                   // pop cx
        &[0x48, 0x8B, 0x14, 0x24],       // mov rdx,[rsp]
        &[0x48, 0x89, 0x34, 0x24],       // mov [rsp],rsi
        &[0x48, 0x8B, 0x54, 0x24, 0x08], // mov rdx,[rsp+8]
        &[0x48, 0x89, 0x74, 0x24, 0xF8], // mov [rsp-8],rsi
        &[0x48, 0x83, 0xEC, 0x08],       // sub rsp,8
        &[0x48, 0x83, 0xC4, 0x08],       // add rsp,8
        &[0xE8, 0x00, 0x00, 0x00, 0x00], // call next
        &[0xC3],                         // ret
    ];
    let _ = p;
    let sled_off = 0x100usize; // relative to OFF
    let region_len = 0x180usize;
    let rsp0 = STACK + 0x800;
    for len in 1..=maxlen {
        let total = 16usize.pow(len as u32);
        for code in 0..total {
            if !sink.next() {
                continue;
            }
            let mut bytes = vec![0xCCu8; region_len];
            for b in bytes[sled_off..].iter_mut() {
                *b = 0x90;
            }
            let mut pos = 0usize;
            let mut rem = code;
            let mut names = vec![];
            for _ in 0..len {
                let item = alphabet[rem % 16];
                names.push(rem % 16);
                rem /= 16;
                bytes[pos..pos + item.len()].copy_from_slice(item);
                pos += item.len();
            }
            // fall off the end of the program into the sled
            bytes[pos] = 0xEB; // jmp rel8 to the sled
            bytes[pos + 1] = (sled_off - (pos + 2)) as u8;
            let mut s = default_sigma(OFF);
            s.gpr[4] = rsp0;
            s.gpr[0] = CODE + OFF as u64 + sled_off as u64 + 0x10; // rax
            s.gpr[3] = CODE + OFF as u64 + sled_off as u64 + 0x20; // rbx
            s.gpr[6] = CODE + OFF as u64 + sled_off as u64 + 0x30; // rsi
            // stack window seeded with landing addresses inside the sled
            let mut pokes: Vec<(u64, Vec<u8>)> = vec![];
            for k in -12i64..=12 {
                let a = (rsp0 as i64 + 8 * k) as u64;
                let v = CODE + OFF as u64 + sled_off as u64 + (0x40 + ((k + 12) as u64 % 8) * 4);
                pokes.push((a, v.to_le_bytes().to_vec()));
            }
            for step in 0..len {
                // the next instruction must be one of the program's (not the sled / filler)
                let d = match decode_at(
                    {
                        let start = CODE + OFF as u64;
                        if s.rip < start || s.rip >= start + pos as u64 {
                            break;
                        }
                        &bytes[(s.rip - start) as usize..]
                    },
                    s.rip,
                ) {
                    Some(d) => d,
                    None => break,
                };
                let _ = d;
                let case = Case {
                    bytes: bytes.clone(),
                    off: OFF,
                    sigma: s.clone(),
                    pokes: pokes.clone(),
                    tag: "S8b".into(),
                    extra_class: "prog".to_string(),
                    subject: String::new(),
                };
                sink.run(case);
                let n = match &sink.w.last_native {
                    Some(n) => n.clone(),
                    None => break,
                };
                if n.sig != 0 {
                    break; // native fault (e.g. return to a non-canonical pushed value)
                }
                // next pre-state = native post-state
                s.rip = n.rip;
                s.gpr = n.gpr;
                s.flags = n.flags & (STATUS_FLAGS | DF);
                let stack_now = sink.w.stub.view(Region::Stack).to_vec();
                let rw_now = sink.w.stub.view(Region::Rw).to_vec();
                pokes.clear();
                for (reg, base, now) in [(Region::Stack, STACK, &stack_now), (Region::Rw, RW, &rw_now)] {
                    let pr = &sink.w.stub.pristine[reg as usize];
                    let mut q = 0usize;
                    while q < PAGE as usize {
                        if now[q..q + 8] != pr[q..q + 8] {
                            pokes.push((base + q as u64, now[q..q + 8].to_vec()));
                        }
                        q += 8;
                    }
                }
            }
        }
    }
}

// ------------------------------------------------------------------------------------------
// orchestration

pub struct NatOutcome {
    pub stats: NatStats,
    pub findings: Findings,
    pub events: Vec<sup::CrashEvent>,
    pub capped: bool,
    pub unplaceable: u64,
    pub total_indices: u64,
}

fn scratch_dir() -> std::path::PathBuf {
    let p = std::path::Path::new(crate::common::VERIF_ROOT).join(".build").join("scratch");
    let _ = std::fs::create_dir_all(&p);
    p
}

fn write_hashes(path: &std::path::Path, set: &std::collections::HashSet<u64>) {
    let mut v: Vec<u8> = Vec::with_capacity(set.len() * 8);
    for h in set {
        v.extend_from_slice(&h.to_le_bytes());
    }
    if std::fs::write(path, v).is_err() {
        unsafe { libc::_exit(4) };
    }
}

fn count_distinct(files: &[std::path::PathBuf]) -> u64 {
    let mut all: Vec<u64> = vec![];
    for f in files {
        if let Ok(b) = std::fs::read(f) {
            for c in b.chunks_exact(8) {
                all.push(u64::from_le_bytes(c.try_into().unwrap()));
            }
        }
        let _ = std::fs::remove_file(f);
    }
    all.sort_unstable();
    all.dedup();
    all.len() as u64
}

/// Runs `gen` (which enumerates cases into the sink) sharded over all cores.
pub fn run_nat(
    filter: DiffFilter,
    wall_cap_secs: u64,
    gen: &(dyn Fn(&mut Sink) + Sync),
) -> NatOutcome {
    let opts = SupOpts {
        hang_secs: 30,
        wall_cap_secs: wall_cap_secs + 60,
        ..Default::default()
    };
    let run_id = std::process::id();
    let dir = scratch_dir();
    let mut stats = NatStats::default();
    let mut findings = Findings::new();
    let mut unplaceable = 0u64;
    let mut capped = false;
    let mut total_indices = 0u64;
    let mut done_shards = 0usize;
    let deadline = std::time::Instant::now() + std::time::Duration::from_secs(wall_cap_secs);
    let dir2 = dir.clone();
    let worker = |ctx: &mut WorkerCtx| {
        let w = NatWorker::new(ctx.shard);
        let shard = ctx.shard;
        let resumed = ctx.resume_after.is_some() || ctx.only.is_some();
        let single = ctx.only.is_some();
        let mut sink = Sink {
            ctx,
            idx: 0,
            w,
            stats: NatStats::default(),
            findings: Findings::new(),
            filter,
            fac: InstructionInfoFactory::new(),
            tag: String::new(),
            unplaceable: 0,
            // the wall-clock cap bounds the sweep, not the confirmation of one case
            deadline: if single { std::time::Instant::now() + std::time::Duration::from_secs(3600) } else { deadline },
            capped: false,
        };
        gen(&mut sink);
        sink.ctx.idle();
        sink.stats.native_steps = sink.w.stub.steps;
        let tagx = if resumed { format!("r{}", std::process::id()) } else { "0".into() };
        if sink.ctx.only.is_none() {
            write_hashes(&dir2.join(format!("{run_id}.{shard}.{tagx}.pre")), &sink.stats.pre_hashes);
            write_hashes(&dir2.join(format!("{run_id}.{shard}.{tagx}.nat")), &sink.stats.native_hashes);
        }
        let v = json!({
            "stats": sink.stats.to_json(),
            "findings": sink.findings.to_json(),
            "unplaceable": sink.unplaceable,
            "capped": sink.capped,
            "indices": sink.idx,
        });
        sink.ctx.emit(&v);
    };
    let res = sup::run_sharded(
        &opts,
        &worker,
        &mut |_s, v: Value| {
            if !v["early_finding"].is_null() {
                let mut a = Findings::from_json(&json!([v["early_finding"].clone()]));
                for f in a.map.values_mut() {
                    f.count = 0;
                }
                findings.merge(a);
                return;
            }
            stats.merge_json(&v["stats"]);
            findings.merge(Findings::from_json(&v["findings"]));
            unplaceable = unplaceable.max(v["unplaceable"].as_u64().unwrap_or(0));
            capped |= v["capped"].as_bool().unwrap_or(false);
            total_indices = total_indices.max(v["indices"].as_u64().unwrap_or(0));
            done_shards += 1;
        },
    );
    // a worker that died on a case: the case is re-run alone, twice; only a crash that
    // reproduces is a verdict (the stub cannot kill its tracer, so it is the emulator's)
    let mut crash_findings: Vec<Finding> = vec![];
    for e in &res.events {
        let mut hows = vec![];
        for _ in 0..2 {
            let (how, _msgs) = sup::run_single(&opts, e.case_idx, 60, &worker);
            hows.push(how);
        }
        let class = |h: &str| h.split(':').next().unwrap_or("").to_string();
        // "reproduces" = the case alone does not return either; when the manner differs between
        // runs (hang vs oversized allocation of one runaway loop) the key says `no-return`
        if hows.iter().all(|h| class(h) != "ok") {
            let manner = if hows.iter().all(|h| class(h) == class(&e.how)) { class(&e.how) } else { "no-return".to_string() };
            let bytes = crate::common::unhex(e.desc.split('|').next().unwrap_or(""));
            let subject = decode_at(&bytes, IP)
                .map(|d| format!("{:?}|{}", d.instr.code(), form_of(&d.instr)))
                .unwrap_or_else(|| "?".into());
            let key = format!("{subject}|crash:{}|", manner);
            crash_findings.push(Finding {
                key,
                what: format!("emulator process died ({}) on case {} [{}]", e.how, e.case_idx, e.desc),
                witness: json!({"engine": "natdiff-crash", "case_idx": e.case_idx, "desc": e.desc, "how": e.how}),
                count: 1,
            });
        } else {
            machinery_error(&format!(
                "worker death on case {} ({}) did not reproduce: {:?}",
                e.case_idx, e.how, hows
            ));
        }
    }
    for f in crash_findings {
        findings.merge_one(f.key.clone(), f);
    }
    // collect hash files of this run
    let mut pre = vec![];
    let mut nat = vec![];
    if let Ok(rd) = std::fs::read_dir(&dir) {
        for e in rd.flatten() {
            let n = e.file_name().to_string_lossy().to_string();
            if n.starts_with(&format!("{run_id}.")) {
                if n.ends_with(".pre") {
                    pre.push(e.path());
                } else if n.ends_with(".nat") {
                    nat.push(e.path());
                }
            }
        }
    }
    stats.distinct_pre = count_distinct(&pre);
    stats.distinct_native = count_distinct(&nat);
    if done_shards < opts.nshards && !res.capped {
        machinery_error(&format!("only {done_shards} of {} natdiff shards reported", opts.nshards));
    }
    NatOutcome {
        stats,
        findings,
        events: res.events,
        capped: capped || res.capped,
        unplaceable,
        total_indices,
    }
}

/// Replays natdiff witnesses in one fresh worker (fresh stub, fresh machine per witness);
/// returns for each the keys it produces (any observable).
pub fn confirm_nat_batch(ws: &[Value]) -> Vec<Result<Vec<String>, String>> {
    let cases: Vec<Option<Case>> = ws
        .iter()
        .map(|w| if w["engine"] == "natdiff" { Case::from_json(&w["case"]) } else { None })
        .collect();
    let opts = SupOpts {
        nshards: 1,
        ..Default::default()
    };
    let (how, msgs) = sup::run_single(&opts, 0, 600, |ctx| {
        if ctx.want(0) {
            let mut w = NatWorker::new(0);
            for (n, c) in cases.iter().enumerate() {
                if let Some(case) = c {
                    ctx.beat();
                    let (r, more) = w.run_with_histories(case);
                    let mut keys: Vec<String> = vec![];
                    if let Some((key, _)) = w.history_problem(&r, case) {
                        keys.push(key);
                    }
                    for r in std::iter::once(&r).chain(more.iter()) {
                        keys.extend(r.diffs.iter().map(|d| format!("{}|{}|{}", r.subject, d.observable, r.class)));
                    }
                    ctx.emit(&json!({"n": n, "keys": keys}));
                }
            }
        }
    });
    let mut out: Vec<Result<Vec<String>, String>> = cases
        .iter()
        .map(|c| if c.is_some() { Err(format!("no replay result (worker: {how})")) } else { Ok(vec![]) })
        .collect();
    for (n, w) in ws.iter().enumerate() {
        if w["engine"] == "natdiff-crash" {
            // reproduced twice in isolation by run_nat before it was recorded
            let bytes = crate::common::unhex(w["desc"].as_str().unwrap_or("").split('|').next().unwrap_or(""));
            let subject = decode_at(&bytes, IP)
                .map(|d| format!("{:?}|{}", d.instr.code(), form_of(&d.instr)))
                .unwrap_or_else(|| "?".into());
            let how = w["how"].as_str().unwrap_or("");
            out[n] = Ok(vec![format!("{subject}|crash:{}|", how.split(':').next().unwrap_or(""))]);
        }
    }
    for m in msgs {
        if let (Some(n), Some(a)) = (m["n"].as_u64(), m["keys"].as_array()) {
            let mut keys: Vec<String> = a.iter().map(|k| k.as_str().unwrap_or("").to_string()).collect();
            keys.sort();
            out[n as usize] = Ok(keys);
        }
    }
    out
}

pub fn confirm_nat(w: &Value) -> Result<Vec<String>, String> {
    confirm_nat_batch(std::slice::from_ref(w)).pop().unwrap()
}

/// Common evidence fields of the natdiff properties.
pub fn nat_evidence(run: &mut Run, census: &Census, out: &NatOutcome, sweeps: &[&str]) {
    let s = &out.stats;
    run.cov("states", json!(s.distinct_pre));
    run.cov("transitions", json!(s.cases));
    run.cov("traces_validated_against_impl", json!(s.cases - s.native_ud - s.native_noncanonical));
    run.cov("evaluations", json!(s.cases));
    run.cov("distinct_nontrivial", json!(s.distinct_native));
    run.cov(
        "rule",
        json!("one case = (instruction bytes, full register/flag/memory state); enumerated by the sweeps listed in `sweeps` over the census templates; states = distinct pre-states; distinct_nontrivial = distinct (instruction bytes, native post-state incl. signal) pairs, i.e. a case is trivial only if another case with the same bytes produced the very same native outcome"),
    );
    run.cov("exhaustive", json!(!out.capped));
    run.cov("sweeps", json!(sweeps));
    run.cov("cases_per_sweep", json!(s.per_tag));
    run.cov("census_byte_strings", json!(census.strings));
    run.cov("census_decoded_supported", json!(census.decoded_supported));
    run.cov("census_signatures", json!(census.by_sig.len()));
    run.cov("census_register_identity_templates", json!(census.by_id.len()));
    run.cov("both_completed", json!(s.both_completed));
    run.cov("both_fault", json!(s.both_fault));
    run.cov("emulator_unimplemented", json!(s.unimplemented));
    run.cov("native_ud_dropped", json!(s.native_ud));
    run.cov("native_noncanonical_target_dropped", json!(s.native_noncanonical));
    run.cov("outcome_mismatch_cases", json!(s.outcome_mismatch));
    run.cov("cases_with_relevant_difference", json!(s.cases_with_diff));
    run.cov("emulator_reruns_on_machines_with_history", json!(s.aged_runs));
    run.cov("unplaceable_shapes_skipped", json!(out.unplaceable));
    run.cov("native_single_steps", json!(s.native_steps));
    run.cov("forms_seen", json!(s.seen_forms.len()));
    run.cov("forms_executing", json!(s.ok_forms.len()));
    run.cov("forms_unimplemented", json!(s.unimpl_forms.len()));
    run.cov("worker_crash_events", json!(out.events.len()));
    if out.capped {
        run.cov("cap_hit", json!("wall-clock cap reached; the enumeration index reached is in `enumeration_indices`"));
    }
    run.cov("enumeration_indices", json!(out.total_indices));
    let mut samples = s.samples.clone();
    if samples.is_empty() {
        samples.push(json!("no sample captured"));
    }
    run.cov("samples", json!(samples));
    run.assume("the CPU of this sandbox is the reference; values outside the alphabets are not explored");
    run.assume("iced-x86 decodes prefixes/ModRM/SIB identically for the census and for the subject");
}

fn first_token(s: &str) -> String {
    s.split_whitespace().next().unwrap_or("").to_string()
}

pub fn forms_baseline_path() -> std::path::PathBuf {
    std::path::Path::new(crate::common::VERIF_ROOT)
        .join("baseline")
        .join("forms_pinned.json")
}

pub fn load_forms_baseline() -> Option<BTreeSet<String>> {
    let t = std::fs::read_to_string(forms_baseline_path()).ok()?;
    let v: Value = serde_json::from_str(&t).ok()?;
    Some(
        v["forms"]
            .as_array()?
            .iter()
            .filter_map(|e| e.as_str().map(|s| s.to_string()))
            .collect(),
    )
}
