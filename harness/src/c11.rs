//! C11 — execution loop: one instruction per step, exact finish and limit conditions.

use crate::common::{Run, Tier};
use crate::emu::{StepOut};
use crate::enumrun::*;
use ax_x86::auto::generated::SupportedMnemonic;
use ax_x86::axecutor::Axecutor;
use ax_x86::state::hooks::{HookResult, RustCallbackFunction};
use ax_x86::state::registers::SupportedRegister as SR;
use iced_x86::{FlowControl, Mnemonic};
use serde_json::json;

#[derive(Clone, Copy, Debug, PartialEq, Eq)]
enum Item {
    Nop,
    MovRax,
    IncRcx,
    JmpNext,
    JmpEnd,
    /// one byte beyond the end of the code: RIP passes the end without ever being equal to it
    JmpPastEnd,
    JmpSelf,
    JrcxzSkip,
    CallNext,
    /// discards a slot: after `call next; pop rax` the stack is empty again although a call
    /// has not returned (the get-PC idiom) - whether a RET is top-level is decided by the stack
    PopRax,
    /// `push <address of the next item>; ret`: a return without a call (returns may outnumber
    /// calls, as in a return chain) - it continues at the pushed address, it does not finish
    PushRet,
    Ret,
    Syscall,
    Int3,
    Invalid,
}
const ITEMS: [Item; 15] = [
    Item::Nop,
    Item::MovRax,
    Item::IncRcx,
    Item::JmpNext,
    Item::JmpEnd,
    Item::JmpPastEnd,
    Item::JmpSelf,
    Item::JrcxzSkip,
    Item::CallNext,
    Item::PopRax,
    Item::PushRet,
    Item::Ret,
    Item::Syscall,
    Item::Int3,
    Item::Invalid,
];

fn item_len(i: Item) -> usize {
    match i {
        Item::Nop | Item::Ret | Item::Int3 | Item::Invalid | Item::PopRax => 1,
        Item::MovRax => 7,
        Item::IncRcx => 3,
        Item::JmpNext | Item::JmpEnd | Item::JmpPastEnd | Item::JmpSelf | Item::JrcxzSkip | Item::Syscall => 2,
        Item::CallNext => 5,
        Item::PushRet => 6,
    }
}

const BASE: u64 = 0x1000;

fn assemble(p: &[Item]) -> Vec<u8> {
    let total: usize = p.iter().map(|i| item_len(*i)).sum();
    let mut out = vec![];
    for (k, it) in p.iter().enumerate() {
        let pos = out.len();
        match it {
            Item::Nop => out.push(0x90),
            Item::MovRax => out.extend_from_slice(&[0x48, 0xC7, 0xC0, 0x07, 0, 0, 0]),
            Item::IncRcx => out.extend_from_slice(&[0x48, 0xFF, 0xC1]),
            Item::JmpNext => out.extend_from_slice(&[0xEB, 0x00]),
            Item::JmpEnd => out.extend_from_slice(&[0xEB, (total - (pos + 2)) as u8]),
            Item::JmpPastEnd => out.extend_from_slice(&[0xEB, (total - (pos + 2) + 1) as u8]),
            Item::JmpSelf => out.extend_from_slice(&[0xEB, 0xFE]),
            Item::JrcxzSkip => {
                let skip = p.get(k + 1).map(|n| item_len(*n)).unwrap_or(0);
                out.extend_from_slice(&[0xE3, skip as u8]);
            }
            Item::CallNext => out.extend_from_slice(&[0xE8, 0, 0, 0, 0]),
            Item::PopRax => out.push(0x58),
            Item::PushRet => {
                out.push(0x68);
                out.extend_from_slice(&((BASE + pos as u64 + 6) as u32).to_le_bytes());
                out.push(0xC3);
            }
            Item::Ret => out.push(0xC3),
            Item::Syscall => out.extend_from_slice(&[0x0F, 0x05]),
            Item::Int3 => out.push(0xCC),
            Item::Invalid => out.push(0x06),
        }
    }
    out
}

thread_local! {
    static HOOKS: std::cell::RefCell<Vec<&'static RustCallbackFunction>> = std::cell::RefCell::new(vec![]);
}

fn stop_hook() -> &'static RustCallbackFunction {
    HOOKS.with(|h| {
        let mut h = h.borrow_mut();
        if h.is_empty() {
            h.push(Box::leak(Box::new(|ax: &mut Axecutor, _m: SupportedMnemonic| {
                ax.stop();
                Ok(HookResult::Handled)
            })));
        }
        h[0]
    })
}

#[derive(Clone, Copy, Debug, PartialEq, Eq)]
enum Hooks {
    None,
    StopBeforeSyscall,
    StopAfterNop,
    /// an after-hook on NOP sets the instruction limit to HOOK_LIMIT (a total) while the run is
    /// under way - lowering it from none / 5, raising it from 1 / 2 (seed C11j: execute() that
    /// reads the limit once)
    LimitAfterNop,
}
const HOOK_LIMIT: u64 = 3;

fn limit_hook() -> &'static RustCallbackFunction {
    HOOKS.with(|h| {
        let mut h = h.borrow_mut();
        while h.len() < 2 {
            if h.is_empty() {
                h.push(Box::leak(Box::new(|ax: &mut Axecutor, _m: SupportedMnemonic| {
                    ax.stop();
                    Ok(HookResult::Handled)
                })));
            } else {
                h.push(Box::leak(Box::new(|ax: &mut Axecutor, _m: SupportedMnemonic| {
                    ax.set_max_instructions(HOOK_LIMIT);
                    Ok(HookResult::Handled)
                })));
            }
        }
        h[1]
    })
}

struct Cfg<'a> {
    prog: &'a [Item],
    code: &'a [u8],
    limit: Option<u64>,
    stack: Option<u64>,
    hooks: Hooks,
    /// initial RIP = BASE + entry (0, or the length of the first item: an entry point inside the
    /// code - the end of the code is where the code ends, wherever execution starts)
    entry: u64,
}

fn build(c: &Cfg) -> Axecutor {
    let mut ax = Axecutor::new(c.code, BASE, BASE + c.entry).unwrap();
    for k in 0..16 {
        ax.reg_write_64(crate::emu::GPR64[k], crate::emu::filler_gpr(k)).unwrap();
        ax.reg_write_128(crate::emu::XMM[k], crate::emu::filler_xmm(k)).unwrap();
    }
    ax.reg_write_64(SR::RCX, 0).unwrap();
    if let Some(len) = c.stack {
        ax.init_stack(len).unwrap();
    }
    if let Some(l) = c.limit {
        ax.set_max_instructions(l);
    }
    match c.hooks {
        Hooks::None => {}
        Hooks::StopBeforeSyscall => ax.hook_before_mnemonic_native(SupportedMnemonic::Syscall, stop_hook()).unwrap(),
        Hooks::StopAfterNop => ax.hook_after_mnemonic_native(SupportedMnemonic::Nop, stop_hook()).unwrap(),
        Hooks::LimitAfterNop => ax.hook_after_mnemonic_native(SupportedMnemonic::Nop, limit_hook()).unwrap(),
    }
    ax
}

#[derive(Clone, Debug, PartialEq, Eq)]
struct Final {
    fp: u64,
    result: String,
}

const STEP_CAP: usize = 96;

/// schedule: Some(k) = k single steps, then execute(); None = single steps only
fn drive(c: &Cfg, k: Option<usize>, may_loop: bool) -> Result<Final, crate::emu::PanicInfo> {
    drive2(c, k, may_loop, false)
}

/// `late_limit`: the machine is built without a limit; the limit is set after the first step (the
/// limit is a TOTAL: setting N when one instruction has run leaves N - 1 to go)
fn drive2(c: &Cfg, k: Option<usize>, may_loop: bool, late_limit: bool) -> Result<Final, crate::emu::PanicInfo> {
    let mut ax = if late_limit {
        let mut ax = build(&Cfg { prog: c.prog, code: c.code, limit: None, stack: c.stack, hooks: c.hooks, entry: c.entry });
        match crate::emu::step(&mut ax) {
            StepOut::Ok(true) => {}
            // the run is over before the limit could be set: nothing to compare
            StepOut::Ok(false) | StepOut::Err(_) => return Ok(Final { fp: 0, result: "<ended-before-the-limit-was-set>".into() }),
            StepOut::Panic(p) => return Err(p),
        }
        ax.set_max_instructions(c.limit.unwrap_or(u64::MAX));
        ax
    } else {
        build(c)
    };
    let mut last = String::from("none");
    let mut ended = false;
    let steps = k.unwrap_or(STEP_CAP);
    for _ in 0..steps {
        match crate::emu::step(&mut ax) {
            StepOut::Ok(true) => last = "Ok(true)".into(),
            StepOut::Ok(false) => {
                last = "finished".into();
                ended = true;
                break;
            }
            StepOut::Err(e) => {
                last = format!("Err({e})");
                ended = true;
                break;
            }
            StepOut::Panic(p) => return Err(p),
        }
    }
    if !ended && k.is_some() && !(may_loop && c.limit.is_none()) {
        match crate::emu::execute(&mut ax)? {
            Ok(()) => last = "finished".into(),
            Err(e) => last = format!("Err({e})"),
        }
    } else if !ended && k.is_some() {
        // unbounded loop without a limit: finish the schedule by stepping to the cap
        for _ in steps..STEP_CAP {
            match crate::emu::step(&mut ax) {
                StepOut::Ok(true) => last = "Ok(true)".into(),
                StepOut::Ok(false) => {
                    last = "finished".into();
                    break;
                }
                StepOut::Err(e) => {
                    last = format!("Err({e})");
                    break;
                }
                StepOut::Panic(p) => return Err(p),
            }
        }
    }
    Ok(Final {
        fp: crate::emu::fingerprint(&ax),
        result: last,
    })
}

/// Loop-control model driven by an independent decode of the program.
fn model_run(c: &Cfg, viol: &mut Vec<(String, String)>, ctx: &str) -> (u64, u64) {
    let mut v = |k: &str, w: String| {
        if !viol.iter().any(|(kk, _)| kk == k) {
            viol.push((k.to_string(), w));
        }
    };
    let mut ax = build(c);
    let end = BASE + c.code.len() as u64;
    let mut count: u64 = 0;
    let mut cur_limit: Option<u64> = c.limit;
    // 8-byte slots on the stack (pushes minus pops): a RET is top-level when it finds none
    let mut depth: i64 = 0;
    let mut transitions = 0u64;
    let mut states = 0u64;
    for _ in 0..STEP_CAP {
        let rip = crate::emu::rip(&ax);
        let before_fp = crate::emu::fingerprint(&ax);
        // limit guard
        if let Some(l) = cur_limit {
            if count >= l {
                let out = crate::emu::step(&mut ax);
                transitions += 1;
                match out {
                    StepOut::Ok(_) => v("loop|limit-not-enforced", format!("{ctx}: step {} succeeded under limit {l}", count + 1)),
                    StepOut::Err(_) => {
                        if crate::emu::fingerprint(&ax) != before_fp {
                            v("loop|step-after-limit-changed-state", format!("{ctx}: the step refused by limit {l} changed the machine"));
                        }
                    }
                    StepOut::Panic(p) => v(&format!("loop|panic@{}", p.tag()), format!("{ctx}: panic")),
                }
                return (transitions, states);
            }
        }
        let d = if rip >= BASE && rip < end { crate::tmpl::decode_at(&c.code[(rip - BASE) as usize..], rip) } else { None };
        let out = crate::emu::step(&mut ax);
        transitions += 1;
        states += 1;
        let out_ok = match &out {
            StepOut::Panic(p) => {
                v(&format!("loop|panic@{}", p.tag()), format!("{ctx}: step at {rip:#x} panicked: {}", crate::emu::first_line(&p.msg)));
                return (transitions, states);
            }
            StepOut::Err(_) => {
                // a failing step: the limit must not be the reason before N instructions ran
                if let (Some(l), StepOut::Err(e)) = (cur_limit, &out) {
                    if e.contains("Instruction limit") && count < l {
                        v("loop|limit-too-early", format!("{ctx}: limit {l} refused instruction {}", count + 1));
                    }
                }
                if let StepOut::Err(e) = &out {
                    if e.contains("already finished") {
                        v("loop|finished-early", format!("{ctx}: step at {rip:#x} refused as finished although nothing finished the run"));
                    }
                }
                return (transitions, states);
            }
            StepOut::Ok(b) => *b,
        };
        let d = match d {
            Some(d) => d,
            None => {
                v("loop|executed-undecodable", format!("{ctx}: step at {rip:#x} succeeded where no instruction decodes"));
                return (transitions, states);
            }
        };
        let i = d.instr;
        count += 1;
        if ax.verif_executed() != count {
            v("loop|count-not-advanced-by-one", format!("{ctx}: after {count} successful steps the executed count is {}", ax.verif_executed()));
            return (transitions, states);
        }
        let now = crate::emu::rip(&ax);
        let mut finish_expected = false;
        match i.flow_control() {
            FlowControl::Next => {
                if now != i.next_ip() {
                    v("loop|rip-not-at-next-instruction", format!("{ctx}: `{i}` left RIP at {now:#x}, next instruction is {:#x}", i.next_ip()));
                }
            }
            FlowControl::UnconditionalBranch => {
                if now != i.near_branch_target() {
                    v("loop|jump-target-wrong", format!("{ctx}: `{i}` left RIP at {now:#x}"));
                }
            }
            FlowControl::ConditionalBranch => {
                if now != i.near_branch_target() && now != i.next_ip() {
                    v("loop|branch-neither-taken-nor-fallthrough", format!("{ctx}: `{i}` left RIP at {now:#x}"));
                }
            }
            FlowControl::Call => depth += 1,
            FlowControl::Return => {
                if depth == 0 && c.stack.is_some() {
                    finish_expected = true;
                } else {
                    depth -= 1;
                }
            }
            _ => {}
        }
        if i.mnemonic() == Mnemonic::Pop {
            depth -= 1;
        }
        if i.mnemonic() == Mnemonic::Push {
            depth += 1;
        }
        if i.mnemonic() == Mnemonic::Syscall && c.hooks == Hooks::StopBeforeSyscall {
            finish_expected = true;
        }
        if i.mnemonic() == Mnemonic::Nop && c.hooks == Hooks::StopAfterNop {
            finish_expected = true;
        }
        if i.mnemonic() == Mnemonic::Nop && c.hooks == Hooks::LimitAfterNop {
            cur_limit = Some(HOOK_LIMIT);
        }
        if now == end {
            finish_expected = true;
        }
        let fin = ax.verif_finished();
        if finish_expected && (!fin || out_ok) {
            let why = if now == end { "code-end" } else if i.flow_control() == FlowControl::Return { "top-level-ret" } else { "hook-stop" };
            v(&format!("loop|not-finished|{why}"), format!("{ctx}: after `{i}` the run should be finished ({why}); finished={fin}, step returned Ok({out_ok})"));
            return (transitions, states);
        }
        if !finish_expected && (fin || !out_ok) {
            v("loop|finished-early", format!("{ctx}: after `{i}` at {rip:#x} the run is finished (finished={fin}, Ok({out_ok})) although RIP {now:#x} is not the code end {end:#x}, no top-level return and no hook stopped it"));
            return (transitions, states);
        }
        if finish_expected {
            // a further step fails and changes nothing
            let fp1 = crate::emu::fingerprint(&ax);
            for _ in 0..2 {
                let o2 = crate::emu::step(&mut ax);
                transitions += 1;
                match o2 {
                    StepOut::Ok(_) => v("loop|step-after-finish-succeeded", format!("{ctx}: a step after the finish succeeded")),
                    StepOut::Err(_) => {
                        if crate::emu::fingerprint(&ax) != fp1 {
                            v("loop|step-after-finish-changed-state", format!("{ctx}: a step after the finish changed the machine"));
                        }
                    }
                    StepOut::Panic(p) => v(&format!("loop|panic@{}", p.tag()), format!("{ctx}: step after finish panicked")),
                }
            }
            // execute() is step() in a loop: on a finished machine it fails like the step does
            match crate::emu::execute(&mut ax) {
                Ok(Ok(())) => v("loop|execute-after-finish-succeeded", format!("{ctx}: execute() on the finished machine returned Ok, step() fails there")),
                Ok(Err(_)) => {
                    if crate::emu::fingerprint(&ax) != fp1 {
                        v("loop|step-after-finish-changed-state", format!("{ctx}: execute() after the finish changed the machine"));
                    }
                }
                Err(p) => v(&format!("loop|panic@{}", p.tag()), format!("{ctx}: execute() after finish panicked")),
            }
            return (transitions, states);
        }
    }
    (transitions, states)
}

fn gen(maxlen: usize) -> impl Fn(&mut EnumCtx) + Sync {
    move |e: &mut EnumCtx| {
        let limits: [Option<u64>; 6] = [None, Some(0), Some(1), Some(2), Some(3), Some(5)];
        for len in 1..=maxlen {
            let total = ITEMS.len().pow(len as u32);
            for code_idx in 0..total {
                let mut prog = vec![];
                let mut rem = code_idx;
                for _ in 0..len {
                    prog.push(ITEMS[rem % ITEMS.len()]);
                    rem /= ITEMS.len();
                }
                let may_loop = prog.contains(&Item::JmpSelf);
                let code = assemble(&prog);
                for limit in limits {
                    // 0x108: a length that is not a multiple of 16 (the initial RSP is aligned down)
                    for stack in [None, Some(0x100u64), Some(0x108)] {
                        for hooks in [Hooks::None, Hooks::StopBeforeSyscall, Hooks::StopAfterNop, Hooks::LimitAfterNop] {
                          for entry in [0u64, item_len(prog[0]) as u64] {
                            // entry inside the code: programs of two or more items, plain configuration
                            if entry != 0 && (len < 2 || hooks != Hooks::None || !matches!(limit, None | Some(2))) {
                                continue;
                            }
                            // hook configurations only matter for programs with that mnemonic
                            if hooks == Hooks::StopBeforeSyscall && !prog.contains(&Item::Syscall) {
                                continue;
                            }
                            if hooks == Hooks::StopAfterNop && !prog.contains(&Item::Nop) {
                                continue;
                            }
                            // the limit-changing hook: programs with a NOP, one stack configuration
                            if hooks == Hooks::LimitAfterNop && (!prog.contains(&Item::Nop) || stack == Some(0x108) || limit == Some(0)) {
                                continue;
                            }
                            if !e.next() {
                                continue;
                            }
                            let ctx = format!("program {:?} limit {:?} stack {:?} hooks {:?} entry +{}", prog, limit, stack, hooks, entry);
                            e.describe("loop", &ctx);
                            let c = Cfg {
                                prog: &prog,
                                code: &code,
                                limit,
                                stack,
                                hooks,
                                entry,
                            };
                            let _ = c.prog;
                            let mut viol: Vec<(String, String)> = vec![];
                            // (1) schedules
                            let reference = drive(&c, None, may_loop);
                            // a run that is still going at the step cap (nested call/ret patterns
                            // grow exponentially) is treated like an unbounded loop: execute()
                            // is only called when a limit ends it
                            let may_loop = may_loop || matches!(&reference, Ok(r) if r.result == "Ok(true)");
                            let mut finals = vec![];
                            for k in 0..=len + 1 {
                                finals.push((k, drive(&c, Some(k), may_loop)));
                            }
                            match &reference {
                                Err(p) => viol.push((format!("loop|panic@{}", p.tag()), format!("{ctx}: stepping panicked: {}", crate::emu::first_line(&p.msg)))),
                                Ok(r) => {
                                    for (k, f) in &finals {
                                        match f {
                                            Err(p) => viol.push((format!("loop|panic@{}", p.tag()), format!("{ctx}: schedule {k} steps + execute panicked"))),
                                            Ok(f) => {
                                                if f != r {
                                                    let what = if f.result != r.result { "result" } else { "state" };
                                                    viol.push((format!("loop|schedule-divergence|{what}"), format!("{ctx}: {k} steps then execute() ends with {:?} / fp {:#x}; stepping alone ends with {:?} / fp {:#x}", crate::emu::first_line(&f.result), f.fp, crate::emu::first_line(&r.result), r.fp)));
                                                }
                                            }
                                        }
                                    }
                                            // the limit set after the first step instead of before it
                                    if let Some(l) = limit {
                                        if l >= 1 && hooks == Hooks::None {
                                            match drive2(&c, None, may_loop, true) {
                                                Err(p) => viol.push((format!("loop|panic@{}", p.tag()), format!("{ctx}: limit set after the first step: panic"))),
                                                Ok(f) => {
                                                    if f.result != "<ended-before-the-limit-was-set>" && (f.result != r.result || f.fp != r.fp) {
                                                        viol.push(("loop|limit-set-mid-run-is-not-a-total".to_string(), format!("{ctx}: with the limit {l} set after the first step the run ends with {:?} / fp {:#x}; with the limit set before it, {:?} / fp {:#x}", crate::emu::first_line(&f.result), f.fp, crate::emu::first_line(&r.result), r.fp)));
                                                    }
                                                }
                                            }
                                        }
                                    }
                                    e.outcome(r.fp ^ crate::common::fnv64(r.result.as_bytes()));
                                }
                            }
                            // (2) loop-control model
                            let (t, s) = model_run(&c, &mut viol, &ctx);
                            e.count("transitions", t);
                            e.count("schedules", (len + 3) as u64);
                            let _ = s;
                            e.state(crate::common::fnv64(ctx.as_bytes()));
                            e.sample(|| json!({"program": format!("{:?}", prog), "bytes": crate::common::hex(&code), "limit": limit, "stack": stack, "hooks": format!("{:?}", hooks)}));
                            let mut seen = std::collections::BTreeSet::new();
                            for (k, w) in viol {
                                if seen.insert(k.clone()) {
                                    e.finding(&k, || w.clone(), || json!({"program": format!("{:?}", prog), "bytes": crate::common::hex(&code), "limit": limit, "stack": stack, "hooks": format!("{:?}", hooks), "entry": entry}));
                                }
                            }
                          }
                        }
                    }
                }
            }
        }
    }
}

pub fn run(tier: Tier) -> i32 {
    let mut run = Run::new("C11", tier.clone());
    let maxlen = if tier.is_thorough() { 5 } else { 4 };
    let o = EnumOpts {
        sup: crate::sup::SupOpts {
            hang_secs: 20,
            alloc_limit: 1 << 30,
            ..Default::default()
        },
        wall_cap_secs: if tier.is_thorough() { 1500 } else { 45 },
        crash_subject: "loop".into(),
    };
    let g = gen(maxlen);
    if let Some(art) = crate::common::replay_artefact() {
        return crate::common::finish_replay("C11", &art, &|ws| confirm_enum(&o, &g, ws));
    }
    let out = run_enum(&o, &g);
    enum_evidence(&mut run, &out, "one case = (program of <= L instructions over {nop, mov rax imm, inc rcx, jmp next, jmp end, jmp self, jrcxz skip, call next, ret, syscall, int3, invalid byte}, instruction limit in {none,0,1,2,3,5}, stack or not, hook configuration in {none, stop before SYSCALL, stop after NOP, an after-hook on NOP that sets the limit to 3 mid-run}); every case is driven by every schedule (steps only; k steps then execute() for every k) whose final state, result and error text must agree, and stepped against a loop-control model built on an independent decode; states = distinct configurations; distinct_nontrivial = distinct (final fingerprint, result)");
    run.cov("program_max_length", json!(maxlen));
    run.guard("cases", out.cases >= 10_000 || out.capped, format!("{} configurations", out.cases));
    run.guard("outcomes-distinct", out.distinct > 20, format!("{} distinct final outcomes", out.distinct));
    run.assume("the state after a step that fails for another reason is compared only between schedules; unbounded loops are driven to a cap of 24 steps");
    let code = run.finish_batch(&|ws| confirm_enum(&o, &g, ws));
    code
}
