//! C16 — malformed ELF input yields an error, never a crash or runaway allocation.

use crate::common::{Run, Tier};
use crate::elfgen::*;
use crate::emu::guarded;
use crate::enumrun::*;
use ax_x86::axecutor::Axecutor;
use serde_json::json;

fn seeds() -> Vec<(String, Vec<u8>, bool)> {
    let mut v: Vec<(String, Vec<u8>, bool)> = vec![];
    for n in ["hello_world.bin", "trace.bin", "c_loop.bin"] {
        match std::fs::read(format!("/repo/testdata/{n}")) {
            Ok(b) => v.push((n.to_string(), b, false)),
            Err(e) => crate::common::machinery_error(&format!("bundled seed {n}: {e}")),
        }
    }
    let t = |n: usize, s: u8| text_bytes(n, s);
    let sym = |name: &str, value: u64| Sym { name: Some(name.into()), value, shndx: 4, info: 0x12 };
    let specs: Vec<(&str, ElfSpec)> = vec![
        ("gen-two-seg", ElfSpec { e_type: 2, entry: 0x401000, segs: vec![
            Seg { p_type: PT_LOAD, flags: 5, vaddr: 0x401000, file: t(0x40, 1), memsz: 0x40, align: 0x1000 },
            Seg { p_type: PT_LOAD, flags: 6, vaddr: 0x403000, file: t(0x10, 2), memsz: 0x50, align: 0x1000 },
        ], syms: Some(vec![sym("_start", 0x401000), sym("helper", 0x401010)]) }),
        ("gen-one-seg-nosym", ElfSpec { e_type: 2, entry: 0x400010, segs: vec![
            Seg { p_type: PT_LOAD, flags: 7, vaddr: 0x400010, file: t(0x30, 3), memsz: 0x30, align: 0x1000 },
        ], syms: None }),
        ("gen-tls", ElfSpec { e_type: 2, entry: 0x401000, segs: vec![
            Seg { p_type: PT_LOAD, flags: 5, vaddr: 0x401000, file: t(0x20, 4), memsz: 0x20, align: 0x1000 },
            Seg { p_type: PT_LOAD, flags: 6, vaddr: 0x403000, file: t(0x20, 5), memsz: 0x40, align: 0x1000 },
            Seg { p_type: PT_TLS, flags: 4, vaddr: 0x403000, file: t(0x10, 6), memsz: 0x20, align: 8 },
        ], syms: Some(vec![sym("_start", 0x401000), sym("tls_var", 0x403000)]) }),
        ("gen-extras", ElfSpec { e_type: 2, entry: 0x401000, segs: vec![
            Seg { p_type: PT_PHDR, flags: 4, vaddr: 0x400040, file: vec![], memsz: 0, align: 8 },
            Seg { p_type: PT_LOAD, flags: 5, vaddr: 0x401000, file: t(0x20, 7), memsz: 0x20, align: 0x1000 },
            Seg { p_type: PT_NOTE, flags: 4, vaddr: 0x400200, file: t(0x10, 8), memsz: 0x10, align: 4 },
            Seg { p_type: PT_GNU_STACK, flags: 6, vaddr: 0, file: vec![], memsz: 0, align: 16 },
            Seg { p_type: PT_GNU_RELRO, flags: 4, vaddr: 0x401000, file: vec![], memsz: 0x20, align: 1 },
        ], syms: Some(vec![sym("_start", 0x401000), sym("x", 0x401008)]) }),
        ("gen-dyn", ElfSpec { e_type: 3, entry: 0x1000, segs: vec![
            Seg { p_type: PT_LOAD, flags: 5, vaddr: 0x1000, file: t(0x20, 9), memsz: 0x20, align: 0x1000 },
            Seg { p_type: PT_DYNAMIC, flags: 6, vaddr: 0x2000, file: t(0x10, 10), memsz: 0x10, align: 8 },
        ], syms: Some(vec![sym("_start", 0x1000), sym("y", 0x1004)]) }),
        ("gen-bss-page", ElfSpec { e_type: 2, entry: 0x401000, segs: vec![
            Seg { p_type: PT_LOAD, flags: 6, vaddr: 0x401000, file: t(0x1000, 11), memsz: 0x2800, align: 0x1000 },
        ], syms: Some(vec![sym("_start", 0x401000), sym("z", 0x401800)]) }),
    ];
    for (n, s) in specs {
        v.push((n.to_string(), write(&s), true));
    }
    v
}

fn values(field: &Field, file_len: u64) -> Vec<u64> {
    let mut v: Vec<u64> = vec![
        0, 1, 2, 0x7F, 0xFF, 0x1000, 0xFFFF, 1 << 24, (1 << 31) - 1, 1 << 31, 1 << 32, 1 << 40, (1 << 63) - 1, 1 << 63,
        0u64.wrapping_sub(0x1000), u64::MAX, file_len.wrapping_sub(1), file_len, file_len + 1,
    ];
    let n = field.name.as_str();
    if n.ends_with("p_type") {
        v.extend_from_slice(&[3, 4, 5, 6, 7, 8, 0x6474e550, 0x6474e551, 0x6474e552, 0x6474e553, 0x7000_0000, 0x6000_0000]);
    }
    if n == "e_type" {
        v.extend_from_slice(&[3, 4, 0xFE00, 0xFF00]);
    }
    if n == "e_machine" {
        v.extend_from_slice(&[3, 62, 183]);
    }
    if n.starts_with("ei_") {
        v.extend_from_slice(&[3]);
    }
    let mask: u64 = if field.size >= 8 { u64::MAX } else { (1u64 << (8 * field.size)) - 1 };
    let mut out: Vec<u64> = vec![];
    for x in v {
        let t = x & mask;
        if !out.contains(&t) {
            out.push(t);
        }
    }
    out
}

fn put(f: &mut [u8], fld: &Field, val: u64) {
    for k in 0..fld.size {
        f[fld.off + k] = (val >> (8 * k)) as u8;
    }
}

fn base_name(n: &str) -> String {
    // "ph2.p_memsz" -> "p_memsz", "sh27(symtab).sh_size" -> "symtab.sh_size", "sym1.st_name" -> "st_name"
    if let Some((head, tail)) = n.split_once('.') {
        if head.starts_with("sh") {
            let tag = head.split('(').nth(1).unwrap_or("").trim_end_matches(')');
            return format!("{tag}.{tail}");
        }
        return tail.to_string();
    }
    n.to_string()
}

fn load(e: &mut EnumCtx, seed: &str, bytes: &[u8], what: &str, class: &str) {
    e.describe(class, &format!("{seed}: {what}"));
    let r = guarded(|| Axecutor::from_binary(bytes).map(|_| ()).map_err(|e| e.to_string()));
    e.count("transitions", 1);
    let (oc, extra) = match &r {
        Ok(Ok(())) => {
            e.count("ok", 1);
            (1u64, 0u64)
        }
        Ok(Err(m)) => {
            e.count("err", 1);
            (2, crate::common::fnv64(crate::emu::first_line(m).as_bytes()))
        }
        Err(p) => {
            e.count("panic", 1);
            let key = format!("elf-load|panic@{}|{class}", p.tag());
            let msg = crate::emu::first_line(&p.msg);
            let loc = p.loc.clone();
            e.finding(&key, || format!("{seed}: {what}: from_binary panicked at {loc}: {msg}"), || json!({"seed": seed, "mutation": what}));
            (3, 0)
        }
    };
    let mut f = crate::common::Fp::new();
    f.str(seed);
    f.str(what);
    e.state(f.0);
    f.u64(oc);
    f.u64(extra);
    e.outcome(f.0);
    e.sample(|| json!({"seed": seed, "mutation": what, "outcome": match oc { 1 => "Ok", 2 => "Err", _ => "panic" }}));
}

/// Symbol names of every length around the powers of two, plain and made of 2-, 3- and 4-byte
/// characters at every alignment, so that any byte offset a loader might cut or index a name at
/// falls inside a character in one of the files.
fn symbol_name_family(e: &mut EnumCtx) {
    let lens = [1usize, 7, 8, 15, 16, 31, 32, 63, 64, 65, 127, 128, 129, 255, 256, 257, 1023, 1024, 1025, 4096];
    let chars = ["a", "\u{e9}", "\u{20ac}", "\u{1f600}"];
    for l in lens {
        for (ci, ch) in chars.iter().enumerate() {
            let w = ch.len();
            for shift in 0..w {
                if !e.next() {
                    continue;
                }
                let mut name = "a".repeat(shift);
                while name.len() < l + 8 {
                    name.push_str(ch);
                }
                let spec = ElfSpec {
                    e_type: 2,
                    entry: 0x401000,
                    segs: vec![Seg { p_type: PT_LOAD, flags: 5, vaddr: 0x401000, file: text_bytes(0x40, 1), memsz: 0x40, align: 0x1000 }],
                    syms: Some(vec![
                        Sym { name: Some("_start".into()), value: 0x401000, shndx: 4, info: 0x12 },
                        Sym { name: Some(name.clone()), value: 0x401010, shndx: 4, info: 0x12 },
                        Sym { name: Some(name[shift..].to_string()), value: 0x401020, shndx: 0xFFF1, info: 0x12 },
                    ]),
                };
                load(e, "gen-symbol-names", &write(&spec), &format!("symbol name of {} bytes: {shift} x 'a' then {}-byte characters (around length {l})", name.len(), [1, 2, 3, 4][ci]), "symbol-name");
            }
        }
    }
}

fn gen(thorough: bool, seeds: Vec<(String, Vec<u8>, bool)>) -> impl Fn(&mut EnumCtx) + Sync {
    move |e: &mut EnumCtx| {
        symbol_name_family(e);
        for (name, bytes, generated) in &seeds {
            let fields = field_map(bytes);
            let flen = bytes.len() as u64;
            // 0 deviations
            if e.next() {
                load(e, name, bytes, "unmodified", "none");
            }
            // 1 deviation: every field x every value
            for fld in &fields {
                for val in values(fld, flen) {
                    if !e.next() {
                        continue;
                    }
                    let mut m = bytes.clone();
                    put(&mut m, fld, val);
                    load(e, name, &m, &format!("{}={:#x}", fld.name, val), &base_name(&fld.name));
                }
            }
            // 2 deviations: all pairs inside one program header, and the (e_phoff, e_phnum,
            // e_phentsize) and (e_shoff, e_shnum, e_shentsize, e_shstrndx) groups
            let mut groups: Vec<Vec<&Field>> = vec![];
            for k in 0..16 {
                let g: Vec<&Field> = fields.iter().filter(|f| f.name.starts_with(&format!("ph{k}."))).collect();
                if !g.is_empty() {
                    groups.push(g);
                }
            }
            groups.push(fields.iter().filter(|f| ["e_phoff", "e_phnum", "e_phentsize"].contains(&f.name.as_str())).collect());
            groups.push(fields.iter().filter(|f| ["e_shoff", "e_shnum", "e_shentsize", "e_shstrndx"].contains(&f.name.as_str())).collect());
            groups.push(fields.iter().filter(|f| f.name.contains("(symtab)") || f.name.contains("(strtab)")).collect());
            for g in &groups {
                // program headers beyond the third of a bundled file add nothing new in pairs
                if !thorough && g.first().map(|f| f.name.starts_with("ph") && !f.name.starts_with("ph0.") && !f.name.starts_with("ph1.") && !f.name.starts_with("ph2.")).unwrap_or(false) {
                    continue;
                }
                for i in 0..g.len() {
                    for j in i + 1..g.len() {
                        let (fa, fb) = (g[i], g[j]);
                        // p_paddr / p_align are never read by the loader; pairs with them are the singles again
                        if !thorough && (fa.name.ends_with("p_paddr") || fb.name.ends_with("p_paddr")) {
                            continue;
                        }
                        let va = values(fa, flen);
                        let vb = values(fb, flen);
                        for a in &va {
                            for b in &vb {
                                if !e.next() {
                                    continue;
                                }
                                let mut m = bytes.clone();
                                put(&mut m, fa, *a);
                                put(&mut m, fb, *b);
                                let gname = if fa.name.starts_with("ph") { "pair(program-header)" } else if fa.name.starts_with("e_ph") { "pair(e_ph*)" } else if fa.name.starts_with("e_sh") { "pair(e_sh*)" } else { "pair(symtab/strtab)" };
                                load(e, name, &m, &format!("{}={:#x},{}={:#x}", fa.name, a, fb.name, b), gname);
                            }
                        }
                    }
                }
            }
            // 2 deviations across headers: the same field in two different program headers (a
            // TLS / RELRO / PHDR header refers to the area a LOAD header created, so the two only
            // meet when both are moved). Generated seeds: every pair of headers; bundled files:
            // thorough only.
            if *generated || thorough {
                let mut phs: Vec<Vec<&Field>> = vec![];
                for k in 0..16 {
                    let g: Vec<&Field> = fields.iter().filter(|f| f.name.starts_with(&format!("ph{k}."))).collect();
                    if !g.is_empty() {
                        phs.push(g);
                    }
                }
                for x in 0..phs.len() {
                    for y in x + 1..phs.len() {
                        for fa in &phs[x] {
                            let tail = fa.name.split_once('.').map(|t| t.1).unwrap_or("");
                            if tail == "p_paddr" || tail == "p_align" || tail == "p_flags" {
                                continue;
                            }
                            let fb = match phs[y].iter().find(|f| f.name.split_once('.').map(|t| t.1) == Some(tail)) {
                                Some(f) => f,
                                None => continue,
                            };
                            for a in &values(fa, flen) {
                                for b in &values(fb, flen) {
                                    if !e.next() {
                                        continue;
                                    }
                                    let mut m = bytes.clone();
                                    put(&mut m, fa, *a);
                                    put(&mut m, fb, *b);
                                    load(e, name, &m, &format!("{}={:#x},{}={:#x}", fa.name, a, fb.name, b), "pair(same field, two program headers)");
                                }
                            }
                        }
                    }
                }
            }
            // 3 deviations: all triples inside one of the first three program headers over the
            // fields the loader reads
            {
                for g in groups.iter().take(3) {
                    let g: Vec<&&Field> = g.iter().filter(|f| f.name.starts_with("ph") && !f.name.ends_with("p_paddr") && !f.name.ends_with("p_align")).collect();
                    for i in 0..g.len() {
                        for j in i + 1..g.len() {
                            for k in j + 1..g.len() {
                                let (fa, fb, fc) = (g[i], g[j], g[k]);
                                for a in &values(fa, flen) {
                                    for b in &values(fb, flen) {
                                        for c in &values(fc, flen) {
                                            if !e.next() {
                                                continue;
                                            }
                                            let mut m = bytes.clone();
                                            put(&mut m, fa, *a);
                                            put(&mut m, fb, *b);
                                            put(&mut m, fc, *c);
                                            load(e, name, &m, &format!("{}={:#x},{}={:#x},{}={:#x}", fa.name, a, fb.name, b, fc.name, c), "triple(program-header)");
                                        }
                                    }
                                }
                            }
                        }
                    }
                }
            }
            // 2 deviations anywhere (thorough): every pair of fields of the file that the groups
            // above did not already pair
            if thorough {
                let in_group = |a: &Field, b: &Field| -> bool {
                    let (ha, ta) = a.name.split_once('.').unwrap_or(("", a.name.as_str()));
                    let (hb, tb) = b.name.split_once('.').unwrap_or(("", b.name.as_str()));
                    let ph = |h: &str| h.starts_with("ph");
                    if ph(ha) && ph(hb) {
                        return ha == hb || (ta == tb && !["p_paddr", "p_align", "p_flags"].contains(&ta));
                    }
                    let eph = ["e_phoff", "e_phnum", "e_phentsize"];
                    let esh = ["e_shoff", "e_shnum", "e_shentsize", "e_shstrndx"];
                    if eph.contains(&a.name.as_str()) && eph.contains(&b.name.as_str()) {
                        return true;
                    }
                    if esh.contains(&a.name.as_str()) && esh.contains(&b.name.as_str()) {
                        return true;
                    }
                    let st = |n: &str| n.contains("(symtab)") || n.contains("(strtab)");
                    st(&a.name) && st(&b.name)
                };
                for i in 0..fields.len() {
                    for j in i + 1..fields.len() {
                        let (fa, fb) = (&fields[i], &fields[j]);
                        if in_group(fa, fb) {
                            continue;
                        }
                        for a in &values(fa, flen) {
                            for b in &values(fb, flen) {
                                if !e.next() {
                                    continue;
                                }
                                let mut m = bytes.clone();
                                put(&mut m, fa, *a);
                                put(&mut m, fb, *b);
                                load(e, name, &m, &format!("{}={:#x},{}={:#x}", fa.name, a, fb.name, b), "pair(any two fields)");
                            }
                        }
                    }
                }
            }
            // truncations
            let lens: Vec<usize> = if *generated {
                (0..bytes.len()).collect()
            } else {
                // every length inside the header / phdr / shdr / symtab regions
                let mut v: Vec<usize> = vec![];
                let phoff = get(bytes, 32, 8) as usize;
                let phnum = get(bytes, 56, 2) as usize;
                let shoff = get(bytes, 40, 8) as usize;
                let shnum = get(bytes, 60, 2) as usize;
                v.extend(0..(phoff + 56 * phnum + 1).min(bytes.len()));
                v.extend(shoff.min(bytes.len())..(shoff + 64 * shnum).min(bytes.len()));
                for f in &fields {
                    if f.name.contains("(symtab).sh_offset") || f.name.contains("(strtab).sh_offset") {
                        let o = get(bytes, f.off, 8) as usize;
                        v.extend(o.min(bytes.len())..(o + 96).min(bytes.len()));
                    }
                }
                v.sort_unstable();
                v.dedup();
                v
            };
            for l in lens {
                if !e.next() {
                    continue;
                }
                load(e, name, &bytes[..l], &format!("truncated to {l} bytes"), "truncation");
            }
        }
    }
}

pub fn run(tier: Tier) -> i32 {
    let mut run = Run::new("C16", tier.clone());
    let o = EnumOpts {
        sup: crate::sup::SupOpts {
            hang_secs: 15,
            alloc_limit: 1 << 30,
            rlimit_as: 16 << 30,
            ..Default::default()
        },
        wall_cap_secs: if tier.is_thorough() { 2400 } else { 50 },
        crash_subject: "elf-load".into(),
    };
    let sd = seeds();
    let nseeds = sd.len();
    let g = gen(tier.is_thorough(), sd);
    if let Some(art) = crate::common::replay_artefact() {
        return crate::common::finish_replay("C16", &art, &|ws| confirm_enum(&o, &g, ws));
    }
    let out = run_enum(&o, &g);
    if tier.is_thorough() && crate::common::embedded_fd().is_none() {
        // the same enumeration (quick alphabets) in the dev-like build: debug assertions live,
        // debug_log! arguments evaluated
        let (f, summary) = crate::common::run_embedded("devlike", "C16");
        run.findings.merge(f);
        run.cov("devlike_profile_run", summary);
    }
    enum_evidence(&mut run, &out, "one case = a seed (3 bundled binaries, 6 generated files incl. TLS / dynamic / RELRO / page-sized bss) with 0, 1, 2 or (inside one of the first three program headers) 3 header fields replaced by a value of the boundary alphabet {0,1,2,0x7F,0xFF,0x1000,0xFFFF,2^24,2^31-1,2^31,2^32,2^40,2^63-1,2^63,2^64-0x1000,2^64-1,len-1,len,len+1} plus every defined type constant (pairs: thorough = every two fields of the file; quick = inside one program header, the same field in two program headers, the e_ph* group, the e_sh* group, the symtab/strtab section headers), or truncated (generated files: every length; bundled: every length inside header, program headers, section headers, symbol tables); plus 200 well-formed files whose symbol names have every length around the powers of two up to 4096 and consist of 1-, 2-, 3- or 4-byte characters at every alignment; loaded in a worker with catch_unwind, a 1 GiB single-allocation guard, RLIMIT_AS and a hang watchdog; states = distinct (seed, mutation); distinct_nontrivial = distinct (seed, mutation, outcome, error text)");
    run.cov("seeds", json!(nseeds));
    run.guard("cases", out.cases >= 20_000 || out.capped, format!("{} inputs", out.cases));
    let okc = out.counters.get("ok").cloned().unwrap_or(0);
    let errc = out.counters.get("err").cloned().unwrap_or(0);
    run.guard("ok-and-err-both-seen", okc > 0 && errc > 0, format!("ok {okc} err {errc}"));
    run.assume("an allocation request above 1 GiB for an input below 1 MiB counts as unrelated to the input size; the alphabet has nothing between 2^24 and 2^31");
    let code = run.finish_batch(&|ws| confirm_enum(&o, &g, ws));
    code
}
