//! C01–C06: properties decided by natdiff.

use crate::common::{Finding, Run, Tier};
use crate::natdiff::*;
use crate::sweeps::*;
use crate::tmpl::*;
use serde_json::{json, Value};

fn cap(tier: &Tier) -> u64 {
    if let Ok(s) = std::env::var("VERIF_WALL_CAP") {
        if let Ok(n) = s.parse() {
            return n;
        }
    }
    if tier.is_thorough() {
        1800
    } else {
        50
    }
}

fn f_c01(r: &CaseResult, d: &Diff) -> bool {
    r.is_data
        && (d.observable.starts_with("reg:")
            || d.observable.starts_with("xmm:")
            || d.observable.starts_with("mem:")
            || d.observable == "rip")
}
fn f_c02(_r: &CaseResult, d: &Diff) -> bool {
    d.observable.starts_with("flag")
}
fn f_c03(r: &CaseResult, d: &Diff) -> bool {
    // a transfer the emulator refuses where hardware branches did not go where hardware goes
    !r.is_data && (d.observable == "rip" || d.observable == "outcome:emu_err/native_completed")
}
fn f_c04(_r: &CaseResult, d: &Diff) -> bool {
    !d.observable.starts_with("flag")
}
fn f_c05(r: &CaseResult, d: &Diff) -> bool {
    if r.subject == "call-mem" {
        // the probe is about WHICH address the target is loaded from: that shows in RIP. Where
        // the return address is stored is C04's subject (and its recorded open finding).
        return d.observable == "rip" || d.observable.starts_with("outcome:") || d.observable.starts_with("panic@");
    }
    !d.observable.starts_with("flag")
}
fn f_c06(_r: &CaseResult, d: &Diff) -> bool {
    d.observable.starts_with("outcome:") || d.observable.starts_with("panic@")
}

fn census_guard(run: &mut Run, c: &Census) {
    run.guard(
        "census-size",
        c.by_sig.len() >= 40_000 && c.by_id.len() >= 10_000,
        format!("{} signatures, {} identity templates", c.by_sig.len(), c.by_id.len()),
    );
}

fn generic_guards(run: &mut Run, out: &crate::sweeps::NatOutcome, min_cases: u64) {
    let s = &out.stats;
    run.guard(
        "cases-explored",
        s.cases >= min_cases || out.capped,
        format!("{} cases (floor {})", s.cases, min_cases),
    );
    run.guard(
        "native-outcomes-distinct",
        s.distinct_native > 1,
        format!("{} distinct native outcomes", s.distinct_native),
    );
}

pub fn c01(tier: Tier) -> i32 {
    let mut run = Run::new("C01", tier.clone());
    let census = run_census();
    census_guard(&mut run, &census);
    let canon = canonical_templates(&census);
    let diverse = diverse_templates(&census);
    let plan = Plan {
        census: &census,
        canon: &canon,
        diverse: &diverse,
        tier: tier.clone(),
    };
    let out = run_nat(f_c01, cap(&tier), &|sink| {
        s1_values_flags(&plan, Scope::AllDirect, sink);
        s1d_shape_diversity(&plan, Scope::Data, sink);
        s9_encoding(&plan, Scope::Data, sink);
        s2_register_identity(&plan, Scope::Data, sink);
        s4_shift_counts(&plan, sink);
        s5_division(&plan, sink);
        s7_control(&plan, sink);
        s8_stack_single(&plan, sink);
        if plan.tier.is_thorough() {
            s1p_all_signatures(&plan, Scope::Data, sink);
        }
    });
    run.findings.merge(out.findings.clone());
    let mut sweeps = vec!["S0", "S1", "S1d", "S9", "S2", "S4", "S5", "S7(census only)", "S8a(census only)"];
    if tier.is_thorough() {
        sweeps.push("S1'");
    }
    nat_evidence(&mut run, &census, &out, &sweeps);
    generic_guards(&mut run, &out, 200_000);
    // census: forms executing on the pinned tree must still execute
    match load_forms_baseline() {
        Some(base) => {
            let mut missing = vec![];
            for f in &base {
                if !out.stats.ok_forms.contains(f) {
                    missing.push(f.clone());
                }
            }
            run.cov("forms_pinned", json!(base.len()));
            run.cov("forms_pinned_missing_now", json!(missing));
            let gained: Vec<&String> = out.stats.ok_forms.iter().filter(|f| !base.contains(*f)).collect();
            run.cov("forms_gained_since_pinned", json!(gained));
            if !out.capped {
                for f in missing {
                    let key = format!("census|form-no-longer-executes|{f}");
                    run.findings.merge_one(
                        key.clone(),
                        Finding {
                            key,
                            what: format!("form {f} executed on the pinned tree and does not execute now"),
                            witness: json!({"engine": "census", "form": f}),
                            count: 1,
                        },
                    );
                }
            }
        }
        None => run.guard("forms-baseline-present", false, "baseline/forms_pinned.json missing".into()),
    }
    let ok_now = out.stats.ok_forms.clone();
    run.finish_batch(&move |ws| {
        let mut out = confirm_nat_batch(ws);
        for (n, w) in ws.iter().enumerate() {
            if w["engine"] == "census" {
                let f = w["form"].as_str().unwrap_or("");
                out[n] = if ok_now.contains(f) {
                    Ok(vec![])
                } else {
                    Ok(vec![format!("census|form-no-longer-executes|{f}")])
                };
            }
        }
        out
    })
}

/// Writes baseline/forms_pinned.json from the current tree (run once on the pinned tree).
pub fn census_baseline() -> i32 {
    let census = run_census();
    let canon = canonical_templates(&census);
    let diverse = diverse_templates(&census);
    let plan = Plan {
        census: &census,
        canon: &canon,
        diverse: &diverse,
        tier: Tier::Quick,
    };
    let out = run_nat(f_c01, 600, &|sink| {
        s1_values_flags(&plan, Scope::AllDirect, sink);
        s2_register_identity(&plan, Scope::Data, sink);
        s4_shift_counts(&plan, sink);
        s5_division(&plan, sink);
        s7_control(&plan, sink);
        s8_stack_single(&plan, sink);
    });
    if out.capped {
        crate::common::machinery_error("census baseline run was capped");
    }
    let v = json!({
        "note": "set of (iced Code | operand form) pairs for which at least one enumerated case stepped Ok in the emulator while the native CPU completed, measured on the pinned tree (+hooks)",
        "forms": out.stats.ok_forms,
        "unimplemented_forms": out.stats.unimpl_forms,
        "seen_forms": out.stats.seen_forms.len(),
    });
    let p = forms_baseline_path();
    let _ = std::fs::create_dir_all(p.parent().unwrap());
    std::fs::write(&p, serde_json::to_string_pretty(&v).unwrap()).expect("write baseline");
    println!("wrote {} ({} forms executing, {} unimplemented, {} seen)", p.display(), out.stats.ok_forms.len(), out.stats.unimpl_forms.len(), out.stats.seen_forms.len());
    0
}

pub fn c02(tier: Tier) -> i32 {
    let mut run = Run::new("C02", tier.clone());
    let census = run_census();
    census_guard(&mut run, &census);
    let canon = canonical_templates(&census);
    let diverse = diverse_templates(&census);
    let plan = Plan {
        census: &census,
        canon: &canon,
        diverse: &diverse,
        tier: tier.clone(),
    };
    let out = run_nat(f_c02, cap(&tier), &|sink| {
        s1_values_flags(&plan, Scope::AllDirect, sink);
        s1d_shape_diversity(&plan, Scope::Data, sink);
        s9_encoding(&plan, Scope::AllDirect, sink);
        s4_shift_counts(&plan, sink);
        s5_division(&plan, sink);
        s7_control(&plan, sink);
        s8_stack_single(&plan, sink);
        // every register assignment (incl. one register in two operand positions) under all
        // flags clear and all flags set: shortcuts keyed on operand identity
        s2_register_identity_flags(&plan, Scope::Data, sink, true);
        if plan.tier.is_thorough() {
            s1p_all_signatures(&plan, Scope::Data, sink);
        }
    });
    run.findings.merge(out.findings.clone());
    let mut sweeps = vec!["S0", "S1", "S1d", "S9", "S4", "S5", "S7", "S8a", "S2"];
    if tier.is_thorough() {
        sweeps.push("S1'");
    }
    nat_evidence(&mut run, &census, &out, &sweeps);
    generic_guards(&mut run, &out, 200_000);
    run.assume("flags compared under the mask of DESIGN §3.5: undefined flags never, AF only where the instruction leaves it unaffected");
    run.finish_batch(&confirm_nat_batch)
}

pub fn c03(tier: Tier) -> i32 {
    let mut run = Run::new("C03", tier.clone());
    let census = run_census();
    census_guard(&mut run, &census);
    let canon = canonical_templates(&census);
    let diverse = diverse_templates(&census);
    let plan = Plan {
        census: &census,
        canon: &canon,
        diverse: &diverse,
        tier: tier.clone(),
    };
    let out = run_nat(f_c03, cap(&tier), &|sink| {
        s7_control(&plan, sink);
        s9_encoding(&plan, Scope::AllDirect, sink);
        if plan.tier.is_thorough() {
            s1p_all_signatures(&plan, Scope::AllDirect, sink);
        }
    });
    run.findings.merge(out.findings.clone());
    nat_evidence(&mut run, &census, &out, &["S0", "S7", "S9"]);
    generic_guards(&mut run, &out, 10_000);
    // every conditional branch observed both taken and not taken
    let mut bad = vec![];
    for (m, c) in &out.stats.flags_seen {
        if c[0] == 0 || c[1] == 0 {
            bad.push(format!("{m}: not-taken {} taken {}", c[0], c[1]));
        }
    }
    run.cov("branch_taken_not_taken", json!(out.stats.flags_seen.iter().map(|(k, v)| (k.clone(), json!({"not_taken": v[0], "taken": v[1]}))).collect::<std::collections::BTreeMap<_, _>>()));
    run.guard("jcc-both-ways", bad.is_empty() && out.stats.flags_seen.len() >= 18, format!("{} conditional mnemonics; one-sided: {:?}", out.stats.flags_seen.len(), bad));
    run.finish_batch(&confirm_nat_batch)
}

/// RSP arithmetic across the 2^16 and 2^32 boundaries. The native stub's stack is one page, so
/// no native case has RSP next to such a boundary; the rule checked here - RSP moves by exactly
/// the architectural increment of the instruction, in 64-bit arithmetic - is the one the native
/// comparison establishes for every stack form inside the page. Emulator only.
pub fn rsp_rule_keys(bytes: &[u8], rsp: u64) -> Vec<(String, String)> {
    use ax_x86::axecutor::Axecutor;
    use ax_x86::state::registers::SupportedRegister as SR;
    const CODEX: u64 = 0x40_0000;
    let d = match decode_at(bytes, CODEX) {
        Some(d) => d,
        None => return vec![],
    };
    let i = d.instr;
    let mut code = bytes[..i.len()].to_vec();
    code.extend_from_slice(&[0x90; 16]);
    let mut ax = match Axecutor::new(&code, CODEX, CODEX) {
        Ok(a) => a,
        Err(_) => return vec![],
    };
    let boundary = (rsp.wrapping_add(0x800)) & !0xFFFF;
    let lo = boundary - 0x1000;
    let mut st = vec![0u8; 0x2000];
    for q in 0..0x400 {
        st[q * 8..q * 8 + 8].copy_from_slice(&(CODEX + 4).to_le_bytes());
    }
    if ax.mem_init_area(lo, st).is_err() {
        return vec![];
    }
    for k in 0..16 {
        ax.reg_write_64(crate::emu::GPR64[k], CODEX + 4).unwrap();
    }
    ax.reg_write_64(SR::RSP, rsp).unwrap();
    ax.verif_set_rflags(0);
    let subject = format!("{:?}|{}", i.code(), form_of(&i));
    let which = if boundary & 0xFFFF_FFFF == 0 { "2^32" } else { "2^16" };
    match crate::emu::step(&mut ax) {
        crate::emu::StepOut::Ok(_) => {
            let want = rsp.wrapping_add(i.stack_pointer_increment() as i64 as u64);
            let got = ax.reg_read_64(SR::RSP).unwrap();
            if got != want {
                return vec![(
                    format!("{subject}|reg:rsp|rsp-across-{which}"),
                    format!("`{i}` with RSP {rsp:#x} left RSP {got:#x}; the instruction moves RSP by {} in 64-bit arithmetic: {want:#x}", i.stack_pointer_increment()),
                )];
            }
            vec![]
        }
        crate::emu::StepOut::Panic(p) => vec![(format!("{subject}|panic@{}/native_completed|rsp-across-{which}", p.tag()), format!("`{i}` with RSP {rsp:#x} panicked: {}", crate::emu::first_line(&p.msg)))],
        crate::emu::StepOut::Err(_) => vec![],
    }
}

fn rsp_rule_sweep(run: &mut Run, canon: &[Tmpl], census: &Census) -> u64 {
    let mut n = 0u64;
    let extra = extra_stack_templates(census);
    for t in canon.iter().chain(extra.iter()) {
        let d = match decode_at(&t.bytes, IP) {
            Some(d) => d,
            None => continue,
        };
        let i = d.instr;
        if !i.is_stack_instruction() || has_mem(&i) || native_denied(&i) || i.stack_pointer_increment() == 0 {
            continue;
        }
        // an instruction that loads RSP itself does not follow the increment rule
        if i.op_count() > 0 && i.op0_kind() == iced_x86::OpKind::Register && i.op0_register().full_register() == iced_x86::Register::RSP && i.mnemonic() == iced_x86::Mnemonic::Pop {
            continue;
        }
        for boundary in [0x6001_0000u64, 0x1_0000_0000] {
            for off in [-16i64, -8, -4, -2, -1, 0, 1, 2, 4, 6, 7, 8, 16] {
                let rsp = boundary.wrapping_add(off as u64);
                n += 1;
                for (key, what) in rsp_rule_keys(&t.bytes, rsp) {
                    let bytes = t.bytes.clone();
                    run.findings.add(&key, || what.clone(), || json!({"engine": "rsp-rule", "bytes": crate::common::hex(&bytes), "rsp": format!("{rsp:#x}")}));
                }
            }
        }
    }
    n
}

pub fn rsp_rule_replay(w: &Value) -> Vec<String> {
    let bytes = crate::common::unhex(w["bytes"].as_str().unwrap_or(""));
    let rsp = u64::from_str_radix(w["rsp"].as_str().unwrap_or("0").trim_start_matches("0x"), 16).unwrap_or(0);
    rsp_rule_keys(&bytes, rsp).into_iter().map(|k| k.0).collect()
}

pub fn c04(tier: Tier) -> i32 {
    let mut run = Run::new("C04", tier.clone());
    let census = run_census();
    census_guard(&mut run, &census);
    let canon = canonical_templates(&census);
    let diverse = diverse_templates(&census);
    let plan = Plan {
        census: &census,
        canon: &canon,
        diverse: &diverse,
        tier: tier.clone(),
    };
    let maxlen = if tier.is_thorough() { 5 } else { 3 };
    let out = run_nat(f_c04, cap(&tier), &|sink| {
        s8_stack_single(&plan, sink);
        s8b_programs(&plan, maxlen, sink);
    });
    run.findings.merge(out.findings.clone());
    let rule_cases = rsp_rule_sweep(&mut run, &canon, &census);
    nat_evidence(&mut run, &census, &out, &["S0", "S8a", "S8b"]);
    run.cov("program_max_length", json!(maxlen));
    run.cov("rsp_increment_rule_cases_across_2^16_and_2^32", json!(rule_cases));
    generic_guards(&mut run, &out, 10_000);
    run.guard("rsp-rule-cases", rule_cases >= 200, format!("{rule_cases} emulator-only cases next to the 2^16 / 2^32 boundaries"));
    run.assume("programs: the native CPU generates the reachable states; each next transition is compared from the native state, so exploration continues past a divergence");
    run.assume("RSP next to a 2^16 / 2^32 boundary: emulator only, against the increment rule (iced stack_pointer_increment, 64-bit arithmetic) that the native comparison establishes inside the stack page");
    run.finish_batch(&|ws: &[Value]| {
        let mut r = confirm_nat_batch(ws);
        for (n, w) in ws.iter().enumerate() {
            if w["engine"] == "rsp-rule" {
                r[n] = Ok(rsp_rule_replay(w));
            }
        }
        r
    })
}

pub fn c05(tier: Tier) -> i32 {
    let mut run = Run::new("C05", tier.clone());
    let census = run_census();
    census_guard(&mut run, &census);
    let canon = canonical_templates(&census);
    let diverse = diverse_templates(&census);
    let plan = Plan {
        census: &census,
        canon: &canon,
        diverse: &diverse,
        tier: tier.clone(),
    };
    let out = run_nat(f_c05, cap(&tier), &|sink| {
        s3_addressing(&plan, sink);
    });
    run.findings.merge(out.findings.clone());
    nat_evidence(&mut run, &census, &out, &["S0", "S3"]);
    generic_guards(&mut run, &out, 100_000);
    run.finish_batch(&confirm_nat_batch)
}

pub fn c06(tier: Tier) -> i32 {
    let mut run = Run::new("C06", tier.clone());
    let census = run_census();
    census_guard(&mut run, &census);
    let canon = canonical_templates(&census);
    let diverse = diverse_templates(&census);
    let plan = Plan {
        census: &census,
        canon: &canon,
        diverse: &diverse,
        tier: tier.clone(),
    };
    let out = run_nat(f_c06, cap(&tier), &|sink| {
        s5_division(&plan, sink);
        s6_placement(&plan, sink);
        // every addressing form with wrapping / truncating value patterns: an effective address
        // computed differently from hardware shows as a failure where the CPU completes
        s3_addressing(&plan, sink);
        s1_values_flags(&plan, Scope::AllDirect, sink);
        s1d_shape_diversity(&plan, Scope::AllDirect, sink);
        s9_encoding(&plan, Scope::AllDirect, sink);
        s2_register_identity(&plan, Scope::Data, sink);
        s4_shift_counts(&plan, sink);
        if plan.tier.is_thorough() {
            s1p_all_signatures(&plan, Scope::AllDirect, sink);
        }
    });
    run.findings.merge(out.findings.clone());
    let mut sweeps = vec!["S0", "S5", "S6", "S3", "S1", "S1d", "S9", "S2", "S4"];
    if tier.is_thorough() {
        sweeps.push("S1'");
    }
    nat_evidence(&mut run, &census, &out, &sweeps);
    generic_guards(&mut run, &out, 200_000);
    run.guard(
        "faults-and-completions",
        out.stats.both_fault > 0 && out.stats.both_completed > 0,
        format!("both_fault {} both_completed {}", out.stats.both_fault, out.stats.both_completed),
    );
    run.assume("fault classes compared: SIGFPE, SIGSEGV, SIGBUS; native #UD cases are dropped and counted");
    run.finish_batch(&confirm_nat_batch)
}
