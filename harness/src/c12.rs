//! C12 — hooks bracket the instruction, short-circuit, stop and fail cleanly.

use crate::common::{Run, Tier};
use crate::emu::{guarded, StepOut};
use crate::enumrun::*;
use ax_x86::auto::generated::SupportedMnemonic;
use ax_x86::axecutor::Axecutor;
use ax_x86::helpers::syscalls::Syscall;
use ax_x86::state::hooks::{HookResult, RustCallbackFunction};
use ax_x86::state::registers::SupportedRegister as SR;
use serde_json::json;
use std::cell::RefCell;

#[derive(Clone, Copy, Debug, PartialEq, Eq)]
pub enum Outcome {
    Unhandled = 0,
    Handled = 1,
    Stop = 2,
    Error = 3,
    Mutate = 4,
    Register = 5,
    /// writes RIP: the run continues at the second trailing instruction
    Redirect = 6,
}
const NOUT: usize = 7;
const OUTCOMES: [Outcome; NOUT] = [
    Outcome::Unhandled,
    Outcome::Handled,
    Outcome::Stop,
    Outcome::Error,
    Outcome::Mutate,
    Outcome::Register,
    Outcome::Redirect,
];

#[derive(Clone, Debug)]
struct Entry {
    id: usize,      // 0..3 hooks on M1, 9 = hook on M2
    before: bool,
    outcome: Outcome,
    rip: u64,
    rcx: u64,
    count: u64,
    step: usize,
    register_result_ok: Option<bool>,
}

thread_local! {
    static LOG: RefCell<Vec<Entry>> = RefCell::new(vec![]);
    static STEP: RefCell<usize> = RefCell::new(0);
    static POOL: RefCell<Vec<&'static RustCallbackFunction>> = RefCell::new(vec![]);
    static TARGET: RefCell<u64> = RefCell::new(0);
}

const M1: SupportedMnemonic = SupportedMnemonic::Inc;
const M2: SupportedMnemonic = SupportedMnemonic::Nop;
const RBX0: u64 = 0x5555;

fn mutate_value(id: usize, before: bool) -> u64 {
    0xB000 + (id as u64) * 2 + before as u64
}

fn make_hook(id: usize, before: bool, outcome: Outcome) -> &'static RustCallbackFunction {
    Box::leak(Box::new(move |ax: &mut Axecutor, _m: SupportedMnemonic| {
        let mut e = Entry {
            id,
            before,
            outcome,
            rip: ax.reg_read_64(SR::RIP)?,
            rcx: ax.reg_read_64(SR::RCX)?,
            count: ax.verif_executed(),
            step: STEP.with(|s| *s.borrow()),
            register_result_ok: None,
        };
        let r: Result<HookResult, Box<dyn std::error::Error>> = match outcome {
            Outcome::Unhandled => Ok(HookResult::Unhandled),
            Outcome::Handled => Ok(HookResult::Handled),
            Outcome::Stop => {
                ax.stop();
                // still inside a hook: stopping does not open the hook table
                let inner: &'static RustCallbackFunction = POOL.with(|p| p.borrow()[0]);
                let r1 = ax.hook_before_mnemonic_native(M1, inner);
                let r2 = ax.hook_after_mnemonic_native(M2, inner);
                let r3 = ax.handle_syscalls(vec![Syscall::Exit]);
                e.register_result_ok = Some(r1.is_ok() || r2.is_ok() || r3.is_ok());
                Ok(HookResult::Unhandled)
            }
            Outcome::Error => Err("hook failed on purpose".into()),
            Outcome::Mutate => {
                ax.reg_write_64(SR::RBX, mutate_value(id, before))?;
                Ok(HookResult::Unhandled)
            }
            Outcome::Redirect => {
                ax.reg_write_64(SR::RIP, TARGET.with(|t| *t.borrow()))?;
                Ok(HookResult::Unhandled)
            }
            Outcome::Register => {
                let inner: &'static RustCallbackFunction = POOL.with(|p| p.borrow()[0]);
                let r1 = ax.hook_before_mnemonic_native(M1, inner);
                let r2 = ax.hook_after_mnemonic_native(M2, inner);
                let r3 = ax.handle_syscalls(vec![Syscall::Exit]);
                e.register_result_ok = Some(r1.is_ok() || r2.is_ok() || r3.is_ok());
                Ok(HookResult::Unhandled)
            }
        };
        LOG.with(|l| l.borrow_mut().push(e));
        r
    }))
}

/// pool index: 0 = the never-run inner hook; then (id, before, outcome)
fn pool_index(id: usize, before: bool, outcome: Outcome) -> usize {
    1 + (id * 2 + before as usize) * NOUT + outcome as usize
}

fn init_pool() {
    POOL.with(|p| {
        let mut p = p.borrow_mut();
        if !p.is_empty() {
            return;
        }
        p.push(Box::leak(Box::new(|_ax: &mut Axecutor, _m: SupportedMnemonic| {
            LOG.with(|l| {
                l.borrow_mut().push(Entry {
                    id: 77,
                    before: true,
                    outcome: Outcome::Unhandled,
                    rip: 0,
                    rcx: 0,
                    count: 0,
                    step: 0,
                    register_result_ok: None,
                })
            });
            Ok(HookResult::Unhandled)
        })));
        for id in 0..10 {
            for before in [false, true] {
                for o in OUTCOMES {
                    let idx = pool_index(id, before, o);
                    while p.len() <= idx {
                        let filler = p[0];
                        p.push(filler);
                    }
                    p[idx] = make_hook(id, before, o);
                }
            }
        }
    });
}

const PROGRAMS: [(&str, &[&str]); 5] = [
    ("M1", &["M1"]),
    ("M1 M1", &["M1", "M1"]),
    ("M2 M1", &["M2", "M1"]),
    ("M1 M2", &["M1", "M2"]),
    // the run ends inside an instruction: a `ret` on the empty stack `init_stack` set up, with a
    // logging hook pair of its own - the instruction that ends the run has after-hooks too
    ("M1 RET", &["M1", "RET"]),
];
const M3: SupportedMnemonic = SupportedMnemonic::Ret;
const FOLLOWUPS: [&str; 5] = ["register-before", "register-after", "handle_syscalls", "step", "execute"];

struct Config {
    before: Vec<Outcome>,
    after: Vec<Outcome>,
    program: usize,
    followup: usize,
}

fn run_config(c: &Config) -> Vec<(String, String)> {
    let mut viol: Vec<(String, String)> = vec![];
    let mut v = |k: &str, w: String| {
        if !viol.iter().any(|(kk, _)| kk == k) {
            viol.push((k.to_string(), w));
        }
    };
    init_pool();
    let mut code: Vec<u8> = vec![];
    let mut kinds = vec![];
    for it in PROGRAMS[c.program].1 {
        if *it == "M1" {
            code.extend_from_slice(&[0x48, 0xFF, 0xC1]);
            kinds.push(1u8);
        } else if *it == "RET" {
            code.push(0xC3);
            kinds.push(2u8);
        } else {
            code.push(0x90);
            kinds.push(0u8);
        }
    }
    // trailing instruction that has no hooks so that the run ends by reaching the code end
    code.extend_from_slice(&[0x48, 0x89, 0xC0]); // mov rax,rax
    // a second one: where a redirecting hook sends the run
    let target = 0x1000 + code.len() as u64;
    TARGET.with(|t| *t.borrow_mut() = target);
    code.extend_from_slice(&[0x48, 0x89, 0xD2]); // mov rdx,rdx
    let mut ax = Axecutor::new(&code, 0x1000, 0x1000).unwrap();
    for k in 0..16 {
        ax.reg_write_64(crate::emu::GPR64[k], crate::emu::filler_gpr(k)).unwrap();
    }
    ax.reg_write_64(SR::RCX, 100).unwrap();
    ax.reg_write_64(SR::RBX, RBX0).unwrap();
    let pool: Vec<&'static RustCallbackFunction> = POOL.with(|p| p.borrow().clone());
    for (id, o) in c.before.iter().enumerate() {
        ax.hook_before_mnemonic_native(M1, pool[pool_index(id, true, *o)]).unwrap();
    }
    for (id, o) in c.after.iter().enumerate() {
        ax.hook_after_mnemonic_native(M1, pool[pool_index(id, false, *o)]).unwrap();
    }
    ax.hook_before_mnemonic_native(M2, pool[pool_index(9, true, Outcome::Unhandled)]).unwrap();
    ax.hook_after_mnemonic_native(M2, pool[pool_index(9, false, Outcome::Unhandled)]).unwrap();
    if kinds.contains(&2) {
        ax.init_stack(0x100).unwrap();
        ax.hook_before_mnemonic_native(M3, pool[pool_index(8, true, Outcome::Unhandled)]).unwrap();
        ax.hook_after_mnemonic_native(M3, pool[pool_index(8, false, Outcome::Unhandled)]).unwrap();
    }
    let hooks_before_run = crate::emu::sorted_lines(&ax.verif_hooks_display());
    LOG.with(|l| l.borrow_mut().clear());
    // drive by single steps
    let mut results: Vec<StepOut> = vec![];
    let mut rcx_model: u64 = 100;
    let mut stopped = false;
    let mut failed = false;
    let ctx = format!("before={:?} after={:?} program={} followup={}", c.before, c.after, PROGRAMS[c.program].0, FOLLOWUPS[c.followup]);
    for (k, kind) in kinds.iter().enumerate() {
        let is_m1 = &(*kind == 1);
        let is_ret = *kind == 2;
        STEP.with(|s| *s.borrow_mut() = k);
        let out = crate::emu::step(&mut ax);
        let log: Vec<Entry> = LOG.with(|l| l.borrow().iter().filter(|e| e.step == k).cloned().collect());
        if let StepOut::Panic(p) = &out {
            v(&format!("hooks|panic@{}", p.tag()), format!("{ctx}: step {k} panicked: {}", crate::emu::first_line(&p.msg)));
            return viol;
        }
        let next_rip = 0x1000 + code_offset(&kinds, k + 1);
        let hook_set_b: Vec<Outcome> = if *is_m1 { c.before.clone() } else { vec![Outcome::Unhandled] };
        let hook_set_a: Vec<Outcome> = if *is_m1 { c.after.clone() } else { vec![Outcome::Unhandled] };
        // (6) foreign hooks
        for e in &log {
            let foreign = if *is_m1 { e.id >= 8 } else if is_ret { e.id != 8 } else { e.id != 9 };
            if foreign || e.id == 77 {
                v("hooks|foreign-mnemonic-hook-ran", format!("{ctx}: step {k}: hook {} ran for the other mnemonic", e.id));
            }
        }
        // (1) at most once
        for (i, e) in log.iter().enumerate() {
            if log.iter().skip(i + 1).any(|f| f.id == e.id && f.before == e.before) {
                v("hooks|ran-twice", format!("{ctx}: step {k}: hook {} ({}) ran twice", e.id, if e.before { "before" } else { "after" }));
            }
        }
        let bseq: Vec<&Entry> = log.iter().filter(|e| e.before).collect();
        let aseq: Vec<&Entry> = log.iter().filter(|e| !e.before).collect();
        // ordering: every before entry precedes every after entry
        if let (Some(lb), Some(fa)) = (log.iter().rposition(|e| e.before), log.iter().position(|e| !e.before)) {
            if lb > fa {
                v("hooks|before-after-interleaved", format!("{ctx}: step {k}: a before-hook ran after an after-hook"));
            }
        }
        let terminator = |o: Outcome| matches!(o, Outcome::Handled | Outcome::Stop | Outcome::Error);
        let stop_in = |s: &[&Entry]| s.iter().any(|e| e.outcome == Outcome::Stop);
        let err_in = |s: &[&Entry]| s.iter().any(|e| e.outcome == Outcome::Error);
        // before phase
        // (3) short-circuit
        for (i, e) in bseq.iter().enumerate() {
            if e.outcome == Outcome::Handled && i + 1 != bseq.len() && !bseq[..i].iter().any(|x| x.outcome == Outcome::Stop) {
                v("hooks|handled-did-not-short-circuit|before", format!("{ctx}: step {k}: {} before-hooks ran after one returned Handled", bseq.len() - i - 1));
            }
        }
        // (3b) a hook that stops execution ends its phase like one that handles the event
        for (i, e) in bseq.iter().enumerate() {
            if e.outcome == Outcome::Stop && i + 1 != bseq.len() {
                v("hooks|stop-did-not-short-circuit|before", format!("{ctx}: step {k}: {} before-hooks ran after one had stopped execution", bseq.len() - i - 1));
            }
        }
        // (2) must-run
        if !bseq.iter().any(|e| terminator(e.outcome)) && bseq.len() != hook_set_b.len() {
            v("hooks|must-run-violated|before", format!("{ctx}: step {k}: {} of {} before-hooks ran although none handled, stopped or failed", bseq.len(), hook_set_b.len()));
        }
        // (5) observations; RIP is the next instruction's address until a hook writes it, and then
        // what that hook wrote (7)
        let mut exp_rip = next_rip;
        for e in &log {
            if e.rip != exp_rip {
                let (key, why) = if exp_rip == next_rip {
                    (format!("hooks|rip-not-advanced|{}", if e.before { "before" } else { "after" }), "the next instruction is there")
                } else {
                    (format!("hooks|rip-written-by-hook-lost|seen-by-{}-hook", if e.before { "before" } else { "after" }), "an earlier hook of this instruction wrote that")
                };
                v(&key, format!("{ctx}: step {k}: hook saw RIP {:#x} instead of {exp_rip:#x} ({why})", e.rip));
            }
            if e.outcome == Outcome::Redirect {
                exp_rip = target;
            }
        }
        for e in &bseq {
            if e.rcx != rcx_model {
                v("hooks|before-saw-effects", format!("{ctx}: step {k}: before-hook saw RCX {} instead of {}", e.rcx, rcx_model));
            }
        }
        let b_err = err_in(&bseq);
        let b_stop = stop_in(&bseq);
        let b_handled = bseq.iter().any(|e| e.outcome == Outcome::Handled);
        if b_err {
            // (9)
            if !matches!(out, StepOut::Err(_)) {
                v("hooks|error-did-not-fail-step|before", format!("{ctx}: step {k}: a before-hook failed but step returned {}", out.brief()));
            }
            if !aseq.is_empty() {
                v("hooks|after-hooks-ran-after-failed-before-hook", format!("{ctx}: step {k}: after-hooks ran although a before-hook failed"));
            }
            failed = true;
            results.push(out);
            break;
        }
        // instruction effects
        let rcx_now = ax.reg_read_64(SR::RCX).unwrap();
        if b_stop {
            // whether the current instruction still executes is not stated
            if *is_m1 && rcx_now == rcx_model + 1 {
                rcx_model += 1;
            }
        } else if *is_m1 {
            rcx_model += 1;
        }
        // after phase
        for e in &aseq {
            if e.rcx != rcx_model && !b_stop {
                v("hooks|after-missed-effects", format!("{ctx}: step {k}: after-hook saw RCX {} instead of {}", e.rcx, rcx_model));
            }
        }
        if !b_stop {
            for (i, e) in aseq.iter().enumerate() {
                if e.outcome == Outcome::Handled && i + 1 != aseq.len() && !aseq[..i].iter().any(|x| x.outcome == Outcome::Stop) {
                    v("hooks|handled-did-not-short-circuit|after", format!("{ctx}: step {k}: {} after-hooks ran after one returned Handled", aseq.len() - i - 1));
                }
            }
            for (i, e) in aseq.iter().enumerate() {
                if e.outcome == Outcome::Stop && i + 1 != aseq.len() {
                    v("hooks|stop-did-not-short-circuit|after", format!("{ctx}: step {k}: {} after-hooks ran after one had stopped execution", aseq.len() - i - 1));
                }
            }
            if !b_handled && !aseq.iter().any(|e| terminator(e.outcome)) && aseq.len() != hook_set_a.len() {
                v("hooks|must-run-violated|after", format!("{ctx}: step {k}: {} of {} after-hooks ran although none handled, stopped or failed", aseq.len(), hook_set_a.len()));
            }
        }
        let a_err = err_in(&aseq);
        let a_stop = stop_in(&aseq);
        if a_err {
            if !matches!(out, StepOut::Err(_)) {
                v("hooks|error-did-not-fail-step|after", format!("{ctx}: step {k}: an after-hook failed but step returned {}", out.brief()));
            }
            failed = true;
            results.push(out);
            break;
        }
        if let StepOut::Err(e) = &out {
            v("hooks|step-failed-without-failing-hook", format!("{ctx}: step {k} failed: {}", crate::emu::first_line(e)));
            failed = true;
            results.push(out);
            break;
        }
        {
            let rip_now = ax.reg_read_64(SR::RIP).unwrap();
            if rip_now != exp_rip {
                let key = if exp_rip == next_rip { "hooks|rip-after-step" } else { "hooks|rip-written-by-hook-lost|after-step" };
                v(key, format!("{ctx}: step {k} left RIP {rip_now:#x}, expected {exp_rip:#x}"));
            }
        }
        if b_stop || a_stop {
            // (10)
            if out != StepOut::Ok(false) {
                v("hooks|stop-did-not-end-run", format!("{ctx}: step {k}: a hook stopped execution but step returned {}", out.brief()));
            }
            if !ax.verif_finished() {
                v("hooks|stop-did-not-finish", format!("{ctx}: step {k}: a hook stopped execution but the machine is not finished"));
            }
            stopped = true;
            results.push(out);
            break;
        }
        results.push(out);
        if exp_rip != next_rip {
            // redirected past the rest of the program
            break;
        }
    }
    // register-from-inside (8)
    let all: Vec<Entry> = LOG.with(|l| l.borrow().clone());
    for e in &all {
        if e.register_result_ok == Some(true) {
            v("hooks|register-from-inside-accepted", format!("{ctx}: registration from inside a hook succeeded"));
        }
    }
    if crate::emu::sorted_lines(&ax.verif_hooks_display()) != hooks_before_run {
        v("hooks|hook-table-changed-during-run", format!("{ctx}: the hook table changed during the run"));
    }
    // (7) mutations persist
    let muts: Vec<u64> = all.iter().filter(|e| e.outcome == Outcome::Mutate).map(|e| mutate_value(e.id, e.before)).collect();
    let rbx = ax.reg_read_64(SR::RBX).unwrap();
    if muts.is_empty() {
        if rbx != RBX0 {
            v("hooks|register-changed-without-mutation", format!("{ctx}: RBX changed to {rbx:#x}"));
        }
    } else if Some(&rbx) != muts.last() {
        v("hooks|mutation-lost", format!("{ctx}: RBX is {rbx:#x}, the last mutating hook wrote {:#x}", muts.last().unwrap()));
    }
    // (10) nothing later happens after a stop
    if stopped {
        let n = LOG.with(|l| l.borrow().len());
        let rcx_before = ax.reg_read_64(SR::RCX).unwrap();
        STEP.with(|s| *s.borrow_mut() = 50);
        let o2 = crate::emu::step(&mut ax);
        if matches!(o2, StepOut::Ok(_)) || LOG.with(|l| l.borrow().len()) != n || ax.reg_read_64(SR::RCX).unwrap() != rcx_before {
            v("hooks|execution-continued-after-stop", format!("{ctx}: a step after the stop returned {} / ran hooks / changed RCX", o2.brief()));
        }
    }
    // (11) registration whenever no hook is executing
    let state = if failed { "after-failed-hook" } else if stopped { "after-stop" } else { "after-normal-run" };
    STEP.with(|s| *s.borrow_mut() = 60);
    match FOLLOWUPS[c.followup] {
        "register-before" => {
            if let Ok(Err(e)) = guarded(|| ax.hook_before_mnemonic_native(M1, pool[0]).map_err(|e| e.to_string())) {
                v(&format!("hooks|register-rejected-when-idle|{state}"), format!("{ctx}: hook_before_mnemonic_native failed: {}", crate::emu::first_line(&e)));
            }
        }
        "register-after" => {
            if let Ok(Err(e)) = guarded(|| ax.hook_after_mnemonic_native(M2, pool[0]).map_err(|e| e.to_string())) {
                v(&format!("hooks|register-rejected-when-idle|{state}"), format!("{ctx}: hook_after_mnemonic_native failed: {}", crate::emu::first_line(&e)));
            }
        }
        "handle_syscalls" => {
            if let Ok(Err(e)) = guarded(|| ax.handle_syscalls(vec![Syscall::Exit]).map_err(|e| e.to_string())) {
                v(&format!("hooks|register-rejected-when-idle|{state}"), format!("{ctx}: handle_syscalls failed: {}", crate::emu::first_line(&e)));
            }
        }
        "step" => {
            if let StepOut::Panic(p) = crate::emu::step(&mut ax) {
                v(&format!("hooks|panic@{}", p.tag()), format!("{ctx}: follow-up step panicked"));
            }
        }
        _ => {
            // a tree on which RIP stalls would otherwise never come back
            ax.set_max_instructions(64);
            if let Err(p) = crate::emu::execute(&mut ax) {
                v(&format!("hooks|panic@{}", p.tag()), format!("{ctx}: follow-up execute panicked"));
            }
        }
    }
    viol
}

fn code_offset(kinds: &[u8], n: usize) -> u64 {
    kinds.iter().take(n).map(|k| if *k == 1 { 3u64 } else { 1 }).sum()
}

/// Instructions that work only when their mnemonic has hooks (`syscall`, `int n`, `int1`,
/// `int3`): every subset of (mnemonic, phase) registrations of logging hooks x each of the four
/// instructions. With a hook of its own the instruction is an executed instruction with hooks:
/// the step succeeds and its hooks bracket it; hooks of the other three never run.
fn dependent_sweep(e: &mut EnumCtx) {
    let instrs: [(&str, &[u8], SupportedMnemonic); 4] = [
        ("syscall", &[0x0F, 0x05], SupportedMnemonic::Syscall),
        ("int 0x80", &[0xCD, 0x80], SupportedMnemonic::Int),
        ("int1", &[0xF1], SupportedMnemonic::Int1),
        ("int3", &[0xCC], SupportedMnemonic::Int3),
    ];
    init_pool();
    let pool: Vec<&'static RustCallbackFunction> = POOL.with(|p| p.borrow().clone());
    for (ii, (text, bytes, _)) in instrs.iter().enumerate() {
        for subset in 0..256u32 {
            if !e.next() {
                continue;
            }
            e.describe("hooks", &format!("dependent {text} registrations={subset:#010b}"));
            let mut code = bytes.to_vec();
            code.extend_from_slice(&[0x48, 0x89, 0xC0]);
            let mut ax = Axecutor::new(&code, 0x1000, 0x1000).unwrap();
            ax.reg_write_64(SR::RAX, 0x3333).unwrap();
            ax.reg_write_64(SR::RCX, 100).unwrap();
            for (mi, (_, _, mn)) in instrs.iter().enumerate() {
                if subset >> (2 * mi) & 1 != 0 {
                    ax.hook_before_mnemonic_native(*mn, pool[pool_index(mi, true, Outcome::Unhandled)]).unwrap();
                }
                if subset >> (2 * mi + 1) & 1 != 0 {
                    ax.hook_after_mnemonic_native(*mn, pool[pool_index(mi, false, Outcome::Unhandled)]).unwrap();
                }
            }
            LOG.with(|l| l.borrow_mut().clear());
            STEP.with(|s| *s.borrow_mut() = 0);
            let out = crate::emu::step(&mut ax);
            let log: Vec<Entry> = LOG.with(|l| l.borrow().clone());
            let own_b = subset >> (2 * ii) & 1 != 0;
            let own_a = subset >> (2 * ii + 1) & 1 != 0;
            let w = || json!({"dependent_instruction": text, "registrations": format!("{subset:#010b}")});
            let ctx = format!("`{text}` with hook registrations {subset:#010b} (bit 2m: before, 2m+1: after; m = syscall, int, int1, int3)");
            e.count("transitions", 1);
            e.count("dependent_cases", 1);
            let mut f = crate::common::Fp::new();
            f.u64(ii as u64);
            f.u64(subset as u64);
            f.u64(0x646570);
            e.state(f.0);
            f.str(out.class());
            f.u64(log.len() as u64);
            e.outcome(f.0);
            if let StepOut::Panic(p) = &out {
                e.finding(&format!("hooks|panic@{}", p.tag()), || format!("{ctx}: step panicked"), w);
                continue;
            }
            if log.iter().any(|x| x.id != ii) {
                e.finding("hooks|foreign-mnemonic-hook-ran", || format!("{ctx}: a hook of another mnemonic ran: {:?}", log.iter().map(|x| x.id).collect::<Vec<_>>()), w);
            }
            if own_b || own_a {
                if let StepOut::Err(er) = &out {
                    e.finding("hooks|step-failed-without-failing-hook", || format!("{ctx}: the instruction has hooks of its own, none failed, yet the step failed: {}", crate::emu::first_line(er)), w);
                    continue;
                }
                let nb = log.iter().filter(|x| x.id == ii && x.before).count();
                let na = log.iter().filter(|x| x.id == ii && !x.before).count();
                if nb != own_b as usize {
                    e.finding("hooks|must-run-violated|before", || format!("{ctx}: its before-hook ran {nb} time(s)"), w);
                }
                if na != own_a as usize {
                    e.finding("hooks|must-run-violated|after", || format!("{ctx}: its after-hook ran {na} time(s)"), w);
                }
                if let (Some(lb), Some(fa)) = (log.iter().rposition(|x| x.before), log.iter().position(|x| !x.before)) {
                    if lb > fa {
                        e.finding("hooks|before-after-interleaved", || format!("{ctx}: a before-hook ran after an after-hook"), w);
                    }
                }
                let next = 0x1000 + bytes.len() as u64;
                if log.iter().any(|x| x.rip != next) {
                    e.finding("hooks|rip-not-advanced|before", || format!("{ctx}: a hook saw RIP {:#x}", log.iter().map(|x| x.rip).find(|r| *r != next).unwrap_or(0)), w);
                }
            }
        }
    }
}

thread_local! {
    static DISPATCH_LOG: RefCell<Vec<(String, bool, String)>> = RefCell::new(vec![]);
    static DISPATCH_HOOKS: RefCell<std::collections::HashMap<String, (&'static RustCallbackFunction, &'static RustCallbackFunction)>> = RefCell::new(std::collections::HashMap::new());
}

fn dispatch_hooks(name: &str) -> (&'static RustCallbackFunction, &'static RustCallbackFunction) {
    DISPATCH_HOOKS.with(|h| {
        let mut h = h.borrow_mut();
        if let Some(x) = h.get(name) {
            return *x;
        }
        let mk = |before: bool| -> &'static RustCallbackFunction {
            let n = name.to_string();
            Box::leak(Box::new(move |_ax: &mut Axecutor, m: SupportedMnemonic| {
                DISPATCH_LOG.with(|l| l.borrow_mut().push((n.clone(), before, format!("{m:?}"))));
                Ok(HookResult::Unhandled)
            }))
        };
        let x = (mk(true), mk(false));
        h.insert(name.to_string(), x);
        x
    })
}

/// One register-direct instruction per mnemonic of the census (iced mnemonic name, bytes).
pub fn dispatch_templates() -> Vec<(String, Vec<u8>)> {
    let census = crate::tmpl::run_census();
    let canon = crate::sweeps::canonical_templates(&census);
    let mut best: std::collections::BTreeMap<String, Vec<u8>> = std::collections::BTreeMap::new();
    for t in &canon {
        let d = match crate::tmpl::decode_at(&t.bytes, 0x1000) {
            Some(d) => d,
            None => continue,
        };
        // (LEA names a memory operand without touching memory)
        if crate::tmpl::has_mem(&d.instr) && d.instr.mnemonic() != iced_x86::Mnemonic::Lea {
            continue;
        }
        let n = format!("{:?}", d.instr.mnemonic());
        let b = t.bytes[..d.instr.len()].to_vec();
        match best.get(&n) {
            Some(old) if (old.len(), old) <= (b.len(), &b) => {}
            _ => {
                best.insert(n, b);
            }
        }
    }
    best.into_iter().collect()
}

/// Hook dispatch is keyed by the mnemonic: with a logging hook pair on EVERY supported mnemonic,
/// one instruction of each mnemonic runs exactly the pair registered under its own name, and the
/// hooks are told that name.
fn dispatch_sweep(e: &mut EnumCtx, tmpls: &[(String, Vec<u8>)]) {
    use std::convert::TryFrom;
    let supported: Vec<SupportedMnemonic> = {
        let mut v: Vec<SupportedMnemonic> = vec![];
        for m in iced_x86::Mnemonic::values() {
            if let Ok(s) = SupportedMnemonic::try_from(m) {
                if !v.contains(&s) {
                    v.push(s);
                }
            }
        }
        v
    };
    for (name, bytes) in tmpls {
        if !e.next() {
            continue;
        }
        e.describe("hooks", &format!("dispatch {name} [{}]", crate::common::hex(bytes)));
        let mut code = bytes.clone();
        code.extend_from_slice(&[0x90; 8]);
        let mut ax = match Axecutor::new(&code, 0x1000, 0x1000) {
            Ok(a) => a,
            Err(_) => continue,
        };
        if ax.init_stack(0x100).is_err() {
            continue;
        }
        let rsp = ax.reg_read_64(SR::RSP).unwrap();
        for k in 0..16 {
            ax.reg_write_64(crate::emu::GPR64[k], 0x10).unwrap();
        }
        ax.reg_write_64(SR::RDX, 0).unwrap();
        ax.reg_write_64(SR::RSP, rsp - 0x40).unwrap();
        for s in &supported {
            let (b, a) = dispatch_hooks(&format!("{s:?}"));
            let _ = ax.hook_before_mnemonic_native(*s, b);
            let _ = ax.hook_after_mnemonic_native(*s, a);
        }
        DISPATCH_LOG.with(|l| l.borrow_mut().clear());
        let out = crate::emu::step(&mut ax);
        let log: Vec<(String, bool, String)> = DISPATCH_LOG.with(|l| l.borrow().clone());
        e.count("transitions", 1);
        e.count("dispatch_cases", 1);
        let mut f = crate::common::Fp::new();
        f.str(name);
        f.u64(0x64697370);
        e.state(f.0);
        f.str(out.class());
        f.u64(log.len() as u64);
        e.outcome(f.0);
        let w = || json!({"dispatch_instruction": name, "bytes": crate::common::hex(bytes)});
        let ctx = format!("one `{name}` instruction [{}] with a logging hook pair on every supported mnemonic", crate::common::hex(bytes));
        if let StepOut::Panic(p) = &out {
            e.finding(&format!("hooks|panic@{}", p.tag()), || format!("{ctx}: step panicked"), w);
            continue;
        }
        if let Some(x) = log.iter().find(|x| x.0 != *name) {
            e.finding("hooks|foreign-mnemonic-hook-ran", || format!("{ctx}: the {} hook registered for {} ran", if x.1 { "before" } else { "after" }, x.0), w);
        }
        if let Some(x) = log.iter().find(|x| x.2 != *name) {
            e.finding("hooks|wrong-mnemonic-passed-to-hook", || format!("{ctx}: a hook was told the mnemonic is {}", x.2), w);
        }
        if let StepOut::Ok(_) = out {
            let nb = log.iter().filter(|x| x.0 == *name && x.1).count();
            let na = log.iter().filter(|x| x.0 == *name && !x.1).count();
            if nb != 1 {
                e.finding("hooks|must-run-violated|before", || format!("{ctx}: its own before-hook ran {nb} time(s)"), w);
            }
            if na != 1 {
                e.finding("hooks|must-run-violated|after", || format!("{ctx}: its own after-hook ran {na} time(s)"), w);
            }
        }
    }
}

/// Hooks registered BETWEEN steps (seed C12j: a remembered hook lookup): a run of instructions of
/// one mnemonic, k steps, then a before-hook, an after-hook or both are registered (no hook is
/// executing, so registration is allowed), then every remaining instruction is stepped - each
/// later instruction runs each hook registered by then exactly once, in the right phase.
fn late_registration_sweep(e: &mut EnumCtx) {
    let progs: [(&str, SupportedMnemonic, Vec<u8>, usize); 2] = [
        ("nop x6", SupportedMnemonic::Nop, vec![0x90; 6], 1),
        ("mov rax,imm32 x6", SupportedMnemonic::Mov, [0x48u8, 0xC7, 0xC0, 5, 0, 0, 0].repeat(6), 7),
    ];
    for (pname, mn, code, _ilen) in progs.iter() {
        for kind in 0..3usize {
            for k in 0..4usize {
                for pre in 0..3usize {
                    for second in 0..2usize {
                        if !e.next() {
                            continue;
                        }
                        e.describe("hooks", &format!("late registration: {pname}, {} registered after {k} step(s), hooks at start: {}, second registration: {second}", ["before", "after", "before+after"][kind], ["none", "before", "after"][pre]));
                        let mut c = code.clone();
                        c.extend_from_slice(&[0xF4; 4]);
                        let mut ax = Axecutor::new(&c, 0x1000, 0x1000).unwrap();
                        let (pb, pa) = dispatch_hooks("late-pre");
                        let (lb, la) = dispatch_hooks("late");
                        let (sb, sa) = dispatch_hooks("late-second");
                        match pre {
                            1 => ax.hook_before_mnemonic_native(*mn, pb).unwrap(),
                            2 => ax.hook_after_mnemonic_native(*mn, pa).unwrap(),
                            _ => {}
                        }
                        let mut bad: Option<String> = None;
                        // expected number of (before, after) hooks that run per instruction
                        let mut exp = (if pre == 1 { 1 } else { 0 }, if pre == 2 { 1 } else { 0 });
                        for step in 0..6usize {
                            if step == k {
                                if kind != 1 {
                                    if ax.hook_before_mnemonic_native(*mn, lb).is_err() { bad = Some("registering a before-hook between steps was refused".into()); }
                                    exp.0 += 1;
                                }
                                if kind != 0 {
                                    if ax.hook_after_mnemonic_native(*mn, la).is_err() { bad = Some("registering an after-hook between steps was refused".into()); }
                                    exp.1 += 1;
                                }
                            }
                            if second == 1 && step == k + 1 {
                                // a second late registration of the OTHER phase one step later
                                if kind == 0 {
                                    ax.hook_after_mnemonic_native(*mn, sa).ok();
                                    exp.1 += 1;
                                } else {
                                    ax.hook_before_mnemonic_native(*mn, sb).ok();
                                    exp.0 += 1;
                                }
                            }
                            DISPATCH_LOG.with(|l| l.borrow_mut().clear());
                            let out = crate::emu::step(&mut ax);
                            e.count("transitions", 1);
                            let log: Vec<(String, bool, String)> = DISPATCH_LOG.with(|l| l.borrow().clone());
                            let nb = log.iter().filter(|x| x.1).count();
                            let na = log.iter().filter(|x| !x.1).count();
                            match out {
                                StepOut::Panic(p) => { bad = Some(format!("step {} panicked: {}", step + 1, p.tag())); break; }
                                StepOut::Err(er) => { bad = Some(format!("step {} failed: {}", step + 1, crate::emu::first_line(&er))); break; }
                                StepOut::Ok(_) => {}
                            }
                            if bad.is_none() && (nb, na) != exp {
                                bad = Some(format!("instruction {} ran {nb} before-hook(s) and {na} after-hook(s); registered by then: {} and {}", step + 1, exp.0, exp.1));
                            }
                        }
                        let mut f = crate::common::Fp::new();
                        f.str(pname);
                        f.u64((((kind * 4 + k) * 3 + pre) * 2 + second) as u64 + 0x6c61_7465_0000);
                        e.state(f.0);
                        f.u64(bad.is_some() as u64);
                        e.outcome(f.0);
                        if let Some(b) = bad {
                            e.finding("hooks|registered-between-steps-not-run", || format!("{pname}: {b}"), || json!({"program": pname, "kind": kind, "after_steps": k, "pre": pre, "second": second}));
                        }
                    }
                }
            }
        }
    }
}

fn gen(maxk: usize, tmpls: Vec<(String, Vec<u8>)>) -> impl Fn(&mut EnumCtx) + Sync {
    move |e: &mut EnumCtx| {
        dependent_sweep(e);
        dispatch_sweep(e, &tmpls);
        late_registration_sweep(e);
        for nb in 0..=maxk {
            for na in 0..=maxk {
                let tb = NOUT.pow(nb as u32);
                let ta = NOUT.pow(na as u32);
                for cb in 0..tb {
                    for ca in 0..ta {
                        for program in 0..PROGRAMS.len() {
                            for followup in 0..FOLLOWUPS.len() {
                                if !e.next() {
                                    continue;
                                }
                                let dec = |mut c: usize, n: usize| -> Vec<Outcome> {
                                    let mut v = vec![];
                                    for _ in 0..n {
                                        v.push(OUTCOMES[c % NOUT]);
                                        c /= NOUT;
                                    }
                                    v
                                };
                                let cfg = Config {
                                    before: dec(cb, nb),
                                    after: dec(ca, na),
                                    program,
                                    followup,
                                };
                                e.describe("hooks", &format!("before={:?} after={:?} program={} followup={}", cfg.before, cfg.after, PROGRAMS[program].0, FOLLOWUPS[followup]));
                                let viol = run_config(&cfg);
                                e.count("transitions", PROGRAMS[program].1.len() as u64 + 1);
                                let log_hash = LOG.with(|l| {
                                    let mut f = crate::common::Fp::new();
                                    for x in l.borrow().iter() {
                                        f.u64(x.id as u64);
                                        f.u64(x.before as u64);
                                        f.u64(x.outcome as u64);
                                        f.u64(x.step as u64);
                                    }
                                    f.0
                                });
                                e.outcome(log_hash);
                                e.state(log_hash ^ (program as u64) << 56 ^ (followup as u64) << 48);
                                e.sample(|| json!({"before": format!("{:?}", cfg.before), "after": format!("{:?}", cfg.after), "program": PROGRAMS[program].0, "followup": FOLLOWUPS[followup], "violations": viol.len()}));
                                for (k, w) in viol {
                                    e.finding(&k, || w.clone(), || json!({"before": format!("{:?}", cfg.before), "after": format!("{:?}", cfg.after), "program": PROGRAMS[program].0, "followup": FOLLOWUPS[followup]}));
                                }
                            }
                        }
                    }
                }
            }
        }
    }
}

pub fn run(tier: Tier) -> i32 {
    let mut run = Run::new("C12", tier.clone());
    let maxk = if tier.is_thorough() { 4 } else { 3 };
    let o = EnumOpts {
        sup: crate::sup::SupOpts {
            hang_secs: 20,
            alloc_limit: 1 << 30,
            ..Default::default()
        },
        wall_cap_secs: if tier.is_thorough() { 1500 } else { 45 },
        crash_subject: "hooks".into(),
    };
    let tmpls = dispatch_templates();
    let g = gen(maxk, tmpls.clone());
    if let Some(art) = crate::common::replay_artefact() {
        return crate::common::finish_replay("C12", &art, &|ws| confirm_enum(&o, &g, ws));
    }
    let out = run_enum(&o, &g);
    enum_evidence(&mut run, &out, "one case = (outcomes of up to k before-hooks and k after-hooks on `inc rcx` from {Unhandled, Handled, Stop, Error, Mutate(RBX), Register-a-hook-from-inside, Redirect(RIP to a second trailing instruction)}, a logging hook pair on `nop`, one of 5 programs (the fifth ends by a top-level `ret` with a logging hook pair of its own), one of 5 follow-up API calls); plus the four instructions that need a hook to work (`syscall`, `int n`, `int1`, `int3`) x all 256 subsets of logging before/after hooks on their four mnemonics; plus one register-direct instruction per mnemonic of the census (all 65 supported mnemonics) with a logging hook pair on EVERY supported mnemonic (dispatch by name); the event log of instrumented native hooks is checked against the order-agnostic grammar of DESIGN C12; states = distinct (hook event log, program, follow-up); distinct_nontrivial = distinct hook event logs");
    run.cov("max_hooks_per_phase", json!(maxk));
    run.guard("cases", out.cases >= 30_000 || out.capped, format!("{} configurations", out.cases));
    run.cov("dispatch_mnemonics", json!(tmpls.iter().map(|t| t.0.clone()).collect::<Vec<_>>()));
    run.guard("dispatch-mnemonics", tmpls.len() >= 50, format!("{} mnemonics with a register-direct form", tmpls.len()));
    run.guard("logs-distinct", out.distinct > 50, format!("{} distinct hook logs", out.distinct));
    run.assume("hook order is documented as undefined: the grammar is order-agnostic; after a Stop, or a Handled in the other phase, only 'at most once' is demanded of the remaining hooks");
    run.finish_batch(&move |ws| confirm_enum(&o, &g, ws))
}
