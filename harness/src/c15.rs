//! C15 — loading a well-formed static ELF reproduces its segments, entry and symbols.

use crate::common::{Run, Tier};
use crate::elfgen::*;
use crate::emu::guarded;
use crate::enumrun::*;
use ax_x86::axecutor::Axecutor;
use serde_json::json;

const SLOTS: [u64; 4] = [0x400000, 0x401000, 0x403000, 0x1000_0000];
const OFFS: [u64; 3] = [0, 0x10, 0xE10];

#[derive(Clone, Copy, Debug)]
struct Shape {
    off: u64,
    filesz_kind: usize, // 0: 0, 1: 1, 2: 0x1F0, 3: to page end, 4: 0x1000, 5: 0x2000
    bss_kind: usize,    // 0: none, 1: 1, 2: to page end, 3: 0x1800
}

fn shape_sizes(s: &Shape) -> (u64, u64) {
    let filesz = match s.filesz_kind {
        0 => 0,
        1 => 1,
        2 => 0x1F0,
        3 => 0x1000 - s.off,
        4 => 0x1000,
        _ => 0x2000,
    };
    let end = s.off + filesz;
    let bss = match s.bss_kind {
        0 => 0,
        1 => 1,
        2 => (0x1000 - (end & 0xFFF)) & 0xFFF,
        _ => 0x1800,
    };
    (filesz, filesz + bss)
}

fn all_shapes() -> Vec<Shape> {
    let mut v = vec![];
    for off in OFFS {
        for f in 0..6 {
            for b in 0..4 {
                let s = Shape { off, filesz_kind: f, bss_kind: b };
                let (fs, ms) = shape_sizes(&s);
                if ms == 0 && fs == 0 {
                    continue; // an empty PT_LOAD loads nothing: nothing to compare
                }
                v.push(s);
            }
        }
    }
    v
}

fn boundary_shapes(n: usize) -> Vec<Shape> {
    let mut v = vec![];
    for off in [0u64, 0xE10] {
        for f in [1usize, 3, 4] {
            for b in [0usize, 3] {
                v.push(Shape { off, filesz_kind: f, bss_kind: b });
            }
        }
    }
    v.truncate(n);
    v
}

struct Case {
    segs: Vec<(u64, Shape, u32)>, // (slot, shape, flags) in program-header order
    extras: usize,
    sym: usize,
    entry_kind: usize,
}

fn pages(slot: u64, s: &Shape) -> (u64, u64) {
    let (_f, m) = shape_sizes(s);
    let start = slot;
    let end = (slot + s.off + m.max(1) + 0xFFF) & !0xFFF;
    (start, end)
}

fn distinct_pages(segs: &[(u64, Shape, u32)]) -> bool {
    for i in 0..segs.len() {
        for j in i + 1..segs.len() {
            let (a0, a1) = pages(segs[i].0, &segs[i].1);
            let (b0, b1) = pages(segs[j].0, &segs[j].1);
            if a0 < b1 && b0 < a1 {
                return false;
            }
        }
    }
    true
}

fn build(c: &Case) -> (ElfSpec, Vec<(u64, Vec<String>)>) {
    let mut segs = vec![];
    if c.extras & 1 != 0 {
        segs.push(Seg { p_type: PT_PHDR, flags: 4, vaddr: 0x300040, file: vec![], memsz: 0, align: 8 });
    }
    for (n, (slot, sh, flags)) in c.segs.iter().enumerate() {
        let (fs, ms) = shape_sizes(sh);
        segs.push(Seg { p_type: PT_LOAD, flags: *flags, vaddr: slot + sh.off, file: text_bytes(fs as usize, 17 * (n as u8 + 1)), memsz: ms, align: 0x1000 });
    }
    if c.extras & 1 != 0 {
        segs.push(Seg { p_type: PT_NOTE, flags: 4, vaddr: 0x300200, file: vec![4, 0, 0, 0, 0, 0, 0, 0, 1, 0, 0, 0, b'G', b'N', b'U', 0], memsz: 16, align: 4 });
        segs.push(Seg { p_type: PT_GNU_STACK, flags: 6, vaddr: 0, file: vec![], memsz: 0, align: 16 });
        // what `ld` emits for the data segment of a static program: a read-only-after-relocation
        // header that starts where a loadable segment starts. It describes a range INSIDE that
        // segment and must not change the permissions the PT_LOAD header gives the whole of it.
        let (slot, sh, _fl) = c.segs[c.segs.len() - 1];
        let (_fs, ms) = shape_sizes(&sh);
        if ms > 0 {
            segs.push(Seg { p_type: PT_GNU_RELRO, flags: 4, vaddr: slot + sh.off, file: vec![], memsz: ms.min(0x10), align: 1 });
        }
    }
    if c.extras & 2 != 0 {
        // what `ld` emits for a static program with thread-local data (seed C15j): a PT_TLS header
        // that starts where the last loadable segment starts, with p_filesz (0) < p_memsz. The
        // .tbss part of the template takes no address space in the image: the bytes of the
        // PT_LOAD at those addresses are ordinary data and stay what the file says.
        let (slot, sh, _fl) = c.segs[c.segs.len() - 1];
        let (_fs, ms) = shape_sizes(&sh);
        if ms > 0 {
            segs.push(Seg { p_type: PT_TLS, flags: 4, vaddr: slot + sh.off, file: vec![], memsz: ms.min(0x20), align: 8 });
        }
    }
    let first = &c.segs[0];
    let (_f0, m0) = shape_sizes(&first.1);
    let base0 = first.0 + first.1.off;
    let entry = if c.entry_kind == 0 { base0 } else { base0 + m0 / 2 };
    // symbols
    let a = base0;
    let b = base0 + (m0 / 3).max(1).min(m0.saturating_sub(1));
    let mut expect: Vec<(u64, Vec<String>)> = vec![];
    let syms: Option<Vec<Sym>> = match c.sym {
        0 => None,
        1 => {
            expect.push((b, vec!["func_b".into()]));
            Some(vec![Sym { name: Some("func_b".into()), value: b, shndx: 4, info: 0x12 }])
        }
        2 => {
            expect.push((b, vec!["first_name".into(), "second_name".into()]));
            Some(vec![
                Sym { name: Some("first_name".into()), value: b, shndx: 4, info: 0x12 },
                Sym { name: Some("second_name".into()), value: b, shndx: 4, info: 0x12 },
            ])
        }
        3 => {
            // an empty-name symbol next to a named one at the same address
            expect.push((b, vec!["named".into(), "".into()]));
            Some(vec![
                Sym { name: Some("named".into()), value: b, shndx: 4, info: 0x12 },
                Sym { name: None, value: b, shndx: 4, info: 0x03 },
            ])
        }
        4 => {
            // an undefined symbol carries no definition; a defined one elsewhere does
            expect.push((b, vec!["defined_here".into()]));
            Some(vec![
                Sym { name: Some("imported".into()), value: 0, shndx: 0, info: 0x10 },
                Sym { name: Some("defined_here".into()), value: b, shndx: 4, info: 0x12 },
            ])
        }
        5 => {
            // a symbol at the entry point (competes with the synthetic `_start`)
            // the file's own symbol is the one "defined there": the synthetic name may only stand
            // in where the file defines nothing
            expect.push((entry, vec!["main_entry".into()]));
            Some(vec![Sym { name: Some("main_entry".into()), value: entry, shndx: 4, info: 0x12 }])
        }
        6 => {
            // an unnamed section symbol BEFORE the named one, at another address: the walk over
            // the table must not end at the first symbol without a name
            // (in one-byte images the two symbols share the address: then both are defined there)
            expect.push((b, if a == b { vec!["after_unnamed".into(), "".into()] } else { vec!["after_unnamed".into()] }));
            Some(vec![
                Sym { name: None, value: a, shndx: 4, info: 0x03 },
                Sym { name: Some("after_unnamed".into()), value: b, shndx: 4, info: 0x12 },
            ])
        }
        7 => {
            // a data object (STT_OBJECT, local binding) is a defined symbol like any function
            expect.push((b, vec!["data_obj".into()]));
            Some(vec![Sym { name: Some("data_obj".into()), value: b, shndx: 4, info: 0x01 }])
        }
        9 => {
            // an indirect function (STT_GNU_IFUNC, type 10): static glibc programs define
            // strlen, memcpy ... this way - a defined symbol with a code address like any other
            expect.push((b, vec!["fast_copy".into()]));
            Some(vec![Sym { name: Some("fast_copy".into()), value: b, shndx: 4, info: 0x1A }])
        }
        _ => {
            // symbols at the very last byte of the first segment's memory image (in its bss
            // tail when it has one) and, before it in the table, at its first byte
            let last = base0 + m0.saturating_sub(1);
            expect.push((last, vec!["last_byte".into(), "first_byte".into()]));
            expect.push((base0, vec!["first_byte".into(), "last_byte".into()]));
            Some(vec![
                Sym { name: Some("first_byte".into()), value: base0, shndx: 4, info: 0x12 },
                Sym { name: Some("last_byte".into()), value: last, shndx: 4, info: 0x11 },
            ])
        }
    };
    let _ = a;
    (ElfSpec { e_type: 2, entry, segs, syms }, expect)
}

fn check(c: &Case) -> Vec<(String, String)> {
    let mut viol: Vec<(String, String)> = vec![];
    let mut v = |k: String, w: String| {
        if !viol.iter().any(|(kk, _)| *kk == k) {
            viol.push((k, w));
        }
    };
    let (spec, expect_syms) = build(c);
    // p_paddr means nothing to a user-space loader: every other file carries 0 there
    let paddr_zero = (c.extras as usize + c.sym as usize + c.segs.len() + c.segs[0].2 as usize) % 2 == 1;
    crate::elfgen::PADDR_ZERO.with(|p| p.set(paddr_zero));
    let file = write(&spec);
    crate::elfgen::PADDR_ZERO.with(|p| p.set(false));
    let unaligned = c.segs.iter().any(|s| s.1.off != 0);
    let class = format!("{}seg,{}", c.segs.len(), if unaligned { "unaligned-vaddr" } else { "page-aligned" });
    let ctx = format!(
        "segments {:?} extras {} symtab {} entry {} p_paddr {}",
        c.segs.iter().map(|(slot, sh, fl)| format!("{:#x}+{:#x} filesz {:#x} memsz {:#x} flags {}", slot, sh.off, shape_sizes(sh).0, shape_sizes(sh).1, fl)).collect::<Vec<_>>(),
        c.extras,
        c.sym,
        c.entry_kind,
        if paddr_zero { "0" } else { "= p_vaddr" }
    );
    let ax = match guarded(|| Axecutor::from_binary(&file).map_err(|e| e.to_string())) {
        Err(p) => {
            v(format!("elf|panic@{}|{class}", p.tag()), format!("{ctx}: from_binary panicked: {}", crate::emu::first_line(&p.msg)));
            return viol;
        }
        Ok(Err(e)) => {
            v(format!("elf|load-failed|{class}"), format!("{ctx}: from_binary failed: {}", crate::emu::first_line(&e)));
            return viol;
        }
        Ok(Ok(ax)) => ax,
    };
    let areas = ax.verif_areas();
    for s in spec.segs.iter().filter(|s| s.p_type == PT_LOAD) {
        // the area that holds p_vaddr
        let a = areas.iter().find(|a| a.start <= s.vaddr && (s.vaddr as u128) < a.start as u128 + a.length.max(1) as u128);
        let a = match a {
            Some(a) => a,
            None => {
                v(format!("elf|segment-not-mapped|{class}"), format!("{ctx}: nothing mapped at {:#x}", s.vaddr));
                continue;
            }
        };
        let o = (s.vaddr - a.start) as usize;
        let have = &a.data[o.min(a.data.len())..];
        if have.len() < s.memsz as usize {
            v(format!("elf|segment-shorter-than-memsz|{class}"), format!("{ctx}: area at {:#x} holds {:#x} bytes from p_vaddr, p_memsz is {:#x}", a.start, have.len(), s.memsz));
            continue;
        }
        if have[..s.file.len()] != s.file[..] {
            v(format!("elf|wrong-file-bytes|{class}"), format!("{ctx}: bytes at {:#x} differ from the file's", s.vaddr));
        }
        if have[s.file.len()..s.memsz as usize].iter().any(|b| *b != 0) {
            v(format!("elf|bss-not-zero|{class}"), format!("{ctx}: bytes between p_filesz and p_memsz at {:#x} are not zero", s.vaddr));
        }
        let want = (if s.flags & 4 != 0 { 1 } else { 0 }) | (if s.flags & 2 != 0 { 2 } else { 0 }) | (if s.flags & 1 != 0 { 4 } else { 0 });
        if a.access != want {
            v(format!("elf|wrong-permissions|{class}"), format!("{ctx}: segment flags {} give area access {} (expected {})", s.flags, a.access, want));
        }
    }
    if crate::emu::rip(&ax) != spec.entry {
        v(format!("elf|wrong-entry|{class}"), format!("{ctx}: RIP {:#x}, e_entry {:#x}", crate::emu::rip(&ax), spec.entry));
    }
    for (addr, names) in &expect_syms {
        match ax.resolve_symbol(*addr) {
            Some(n) if names.contains(&n) => {}
            Some(n) => v(format!("elf|symbol-wrong-name|sym{}", c.sym), format!("{ctx}: {addr:#x} resolves to {n:?}, symbols defined there: {names:?}")),
            None => v(format!("elf|symbol-unresolved|sym{}", c.sym), format!("{ctx}: {addr:#x} does not resolve, symbols defined there: {names:?}")),
        }
    }
    viol
}

fn gen(thorough: bool) -> impl Fn(&mut EnumCtx) + Sync {
    move |e: &mut EnumCtx| {
        let shapes = all_shapes();
        let mut counter = 0usize;
        let mut run = |e: &mut EnumCtx, segs: Vec<(u64, Shape, u32)>, rotate: bool| {
            counter += 1;
            if !distinct_pages(&segs) {
                return;
            }
            let variants: Vec<(usize, usize, usize)> = if rotate {
                vec![(counter % 4, counter % 10, (counter / 10) % 2)]
            } else {
                let mut v = vec![];
                for ex in 0..4 {
                    for sy in 0..10 {
                        for en in 0..2 {
                            v.push((ex, sy, en));
                        }
                    }
                }
                v
            };
            for (extras, sym, entry_kind) in variants {
                if !e.next() {
                    continue;
                }
                let c = Case { segs: segs.clone(), extras, sym, entry_kind };
                e.describe("elf", &format!("{:?} {extras} {sym} {entry_kind}", segs.iter().map(|s| (s.0, s.1.off, s.1.filesz_kind, s.1.bss_kind, s.2)).collect::<Vec<_>>()));
                let viol = check(&c);
                e.count("transitions", 1);
                let mut f = crate::common::Fp::new();
                for s in &segs {
                    f.u64(s.0);
                    f.u64(s.1.off);
                    f.u64(s.1.filesz_kind as u64 * 8 + s.1.bss_kind as u64);
                    f.u64(s.2 as u64);
                }
                f.u64((extras * 100 + sym * 10 + entry_kind) as u64);
                e.state(f.0);
                f.u64(viol.len() as u64);
                e.outcome(f.0);
                e.sample(|| json!({"segments": segs.iter().map(|(slot, sh, fl)| json!({"vaddr": format!("{:#x}", slot + sh.off), "filesz": shape_sizes(sh).0, "memsz": shape_sizes(sh).1, "flags": fl})).collect::<Vec<_>>(), "extras": extras, "symtab_variant": sym, "entry_kind": entry_kind}));
                for (k, w) in viol {
                    e.finding(&k, || w.clone(), || json!({"segments": segs.iter().map(|(slot, sh, fl)| json!([slot, sh.off, sh.filesz_kind, sh.bss_kind, fl])).collect::<Vec<_>>(), "extras": extras, "sym": sym, "entry_kind": entry_kind}));
                }
            }
        };
        // one segment: every slot x every shape x all 8 flag masks
        for slot in SLOTS {
            for sh in &shapes {
                for flags in 0..8u32 {
                    run(e, vec![(slot, *sh, flags)], false);
                }
            }
        }
        // two segments, every order of slots (program-header order != address order included)
        let sh2 = shapes.clone();
        for s0 in SLOTS {
            for s1 in SLOTS {
                if s0 == s1 {
                    continue;
                }
                for (i, a) in sh2.iter().enumerate() {
                    for (j, b) in sh2.iter().enumerate() {
                        let fl = [(5u32, 6u32), (4, 6), (7, 1), (5, 4)][(i + j) % 4];
                        run(e, vec![(s0, *a, fl.0), (s1, *b, fl.1)], true);
                    }
                }
            }
        }
        // three segments in every order
        let sh3 = shapes.clone();
        let mut n3 = 0usize;
        for s0 in SLOTS {
            for s1 in SLOTS {
                for s2 in SLOTS {
                    if s0 == s1 || s1 == s2 || s0 == s2 {
                        continue;
                    }
                    for a in &sh3 {
                        for b in &sh3 {
                            for c in &sh3 {
                                // flag masks rotate with the shapes so that every position sees every mask
                                let fl = [(5u32, 4u32, 6u32), (6, 5, 4), (4, 6, 5), (7, 1, 2), (2, 3, 1)][n3 % 5];
                                n3 += 1;
                                run(e, vec![(s0, *a, fl.0), (s1, *b, fl.1), (s2, *c, fl.2)], true);
                            }
                        }
                    }
                }
            }
        }
        // four segments in every order over the boundary shapes (thorough)
        if thorough {
            let sh4 = boundary_shapes(12);
            for s0 in SLOTS {
                for s1 in SLOTS {
                    for s2 in SLOTS {
                        for s3 in SLOTS {
                            let all = [s0, s1, s2, s3];
                            if (0..4).any(|i| (i + 1..4).any(|j| all[i] == all[j])) {
                                continue;
                            }
                            for a in &sh4 {
                                for b in &sh4 {
                                    for c in &sh4 {
                                        for d in &sh4 {
                                            let fl = [(5u32, 4u32, 6u32, 7u32), (7, 5, 4, 6), (6, 7, 5, 4), (4, 6, 7, 5), (1, 2, 3, 0)][n3 % 5];
                                            n3 += 1;
                                            run(e, vec![(s0, *a, fl.0), (s1, *b, fl.1), (s2, *c, fl.2), (s3, *d, fl.3)], true);
                                        }
                                    }
                                }
                            }
                        }
                    }
                }
            }
        }
    }
}

pub fn run(tier: Tier) -> i32 {
    let mut run = Run::new("C15", tier.clone());
    let o = EnumOpts {
        sup: crate::sup::SupOpts {
            hang_secs: 20,
            alloc_limit: 1 << 30,
            ..Default::default()
        },
        wall_cap_secs: if tier.is_thorough() { 1500 } else { 45 },
        crash_subject: "elf".into(),
    };
    let g = gen(tier.is_thorough());
    if let Some(art) = crate::common::replay_artefact() {
        return crate::common::finish_replay("C15", &art, &|ws| confirm_enum(&o, &g, ws));
    }
    let out = run_enum(&o, &g);
    enum_evidence(&mut run, &out, "one case = a generated ET_EXEC file: 1-3 (thorough: 4 over the boundary shapes) PT_LOAD segments in every program-header order over page slots {0x400000, 0x401000, 0x403000, 0x10000000}, in-page offset {0, 0x10, 0xE10} (p_offset congruent), filesz {0, 1, 0x1F0, to page end, 0x1000, 0x2000}, bss tail {0, 1, to page end, 0x1800}, all 8 flag masks (single segment), optional PT_PHDR/PT_NOTE/PT_GNU_STACK/PT_GNU_RELRO (over the start of the last segment), 10 symbol-table variants (none; an indirect function; one function; two names at one address; a named and an unnamed symbol at one address; an undefined symbol next to a defined one; a symbol at the entry; an unnamed section symbol before a named one; a data object; symbols at the first and the last byte of the image), entry at segment start or middle; only combinations whose segments occupy distinct pages; oracle = the writer's own parameters; states = distinct files; distinct_nontrivial = distinct (file, number of violated clauses)");
    run.guard("cases", out.cases >= 50_000 || out.capped, format!("{} files", out.cases));
    run.assume("ET_EXEC with p_vaddr != 0; executable stacks and dynamic segments are outside 'static well-formed' and exercised by C16; a PT_TLS header (as static glibc programs carry) must leave the image alone - where FS points afterwards is not checked");
    let code = run.finish_batch(&|ws| confirm_enum(&o, &g, ws));
    code
}
