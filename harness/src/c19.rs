//! C19 — a step on arbitrary code bytes and state terminates with success or an error.

use crate::common::{Run, Tier};
use crate::emu::StepOut;
use crate::enumrun::*;
use crate::tmpl::{LEGACY_PREFIXES, SIB_MENU};
use ax_x86::axecutor::Axecutor;
use ax_x86::state::registers::SupportedRegister as SR;
use serde_json::json;

const CODE_AT: u64 = 0x40_0000;
const DATA: u64 = 0x50_0000;
const STK: u64 = 0x60_0000;

fn machine(bytes: &[u8], layout: usize, regs: usize) -> Axecutor {
    let mut code = [0u8; 18];
    let n = bytes.len().min(18);
    code[..n].copy_from_slice(&bytes[..n]);
    let mut ax = Axecutor::new(&code, CODE_AT, CODE_AT).unwrap();
    if layout == 1 {
        ax.mem_init_area(DATA, vec![0x11; 0x100]).unwrap();
        ax.mem_init_area(STK, vec![0x22; 0x100]).unwrap();
    }
    if layout == 2 {
        // areas at both ends of the address space: address arithmetic at the extremes
        ax.mem_init_area(0, vec![0x33; 0x100]).unwrap();
        ax.mem_init_area(0u64.wrapping_sub(0x100), vec![0x44; 0x100]).unwrap();
    }
    for k in 0..16 {
        let v = match regs {
            0 => DATA + 0x80,
            1 => crate::emu::filler_gpr(k),
            2 => 0,
            _ => 0xFFFF_FFFF_FFFF_FFF8,
        };
        ax.reg_write_64(crate::emu::GPR64[k], v).unwrap();
    }
    if regs == 0 {
        ax.reg_write_64(SR::RSP, STK + 0x80).unwrap();
        ax.reg_write_64(SR::RCX, 1).unwrap();
    } else {
        ax.verif_set_rflags(0x8d5);
    }
    ax
}

fn one(e: &mut EnumCtx, bytes: &[u8]) {
    let mut all = crate::common::Fp::new();
    all.bytes(&bytes[..bytes.len().min(8)]);
    e.state(all.0);
    for (layout, regs) in [(0usize, 0usize), (1, 0), (1, 1), (2, 2), (2, 3)] {
        {
            let mut ax = machine(bytes, layout, regs);
            let out = crate::emu::step(&mut ax);
            e.count("transitions", 1);
            match &out {
                StepOut::Ok(_) => e.count("ok", 1),
                StepOut::Err(_) => e.count("err", 1),
                StepOut::Panic(p) => {
                    e.count("panic", 1);
                    let key = format!("step|panic@{}", p.tag());
                    let instr = crate::tmpl::decode_at(bytes, CODE_AT).map(|d| format!("{}", d.instr)).unwrap_or_else(|| "<undecodable>".into());
                    e.finding(
                        &key,
                        || format!("step on bytes [{}] (`{}`) panicked at {}: {}", crate::common::hex(&bytes[..bytes.len().min(15)]), instr, p.loc, crate::emu::first_line(&p.msg)),
                        || json!({"bytes": crate::common::hex(bytes), "layout": layout, "regs": regs}),
                    );
                }
            }
            all.u64(out.is_ok() as u64);
            if let StepOut::Ok(_) = out {
                all.u64(crate::emu::rip(&ax));
            }
        }
    }
    e.outcome(all.0);
}

fn gen(thorough: bool) -> impl Fn(&mut EnumCtx) + Sync {
    move |e: &mut EnumCtx| {
        let fillers: [[u8; 14]; 4] = [[0x00; 14], [0xFF; 14], [0x24, 0x25, 0x10, 0x20, 0x30, 0x40, 0x50, 0x60, 0x70, 0x80, 0x90, 0xA0, 0xB0, 0xC0], [0x90; 14]];
        let mut buf: Vec<u8> = Vec::with_capacity(24);
        // (a) all 1- and 2-byte prefixes (thorough: all 3-byte prefixes)
        for b0 in 0..256u32 {
            for f in fillers.iter() {
                if !e.next() {
                    continue;
                }
                buf.clear();
                buf.push(b0 as u8);
                buf.extend_from_slice(f);
                e.describe("prefix1", &crate::common::hex(&buf[..4]));
                one(e, &buf);
            }
        }
        for b01 in 0..65536u32 {
            for f in fillers.iter() {
                if !e.next() {
                    continue;
                }
                buf.clear();
                buf.push((b01 >> 8) as u8);
                buf.push(b01 as u8);
                buf.extend_from_slice(f);
                e.describe("prefix2", &crate::common::hex(&buf[..4]));
                one(e, &buf);
            }
        }
        if thorough {
            for b in 0..(1u32 << 24) {
                for f in fillers.iter().take(2) {
                    if !e.next() {
                        continue;
                    }
                    buf.clear();
                    buf.push((b >> 16) as u8);
                    buf.push((b >> 8) as u8);
                    buf.push(b as u8);
                    buf.extend_from_slice(f);
                    e.describe("prefix3", &crate::common::hex(&buf[..5]));
                    one(e, &buf);
                }
            }
        }
        // (b) structured family: legacy prefix x REX x opcode x ModRM x SIB menu
        let rexes: Vec<Option<u8>> = if thorough {
            std::iter::once(None).chain((0x40..=0x4F).map(Some)).collect()
        } else {
            vec![None, Some(0x40), Some(0x41), Some(0x44), Some(0x48), Some(0x4C), Some(0x4F)]
        };
        let sibs: &[u8] = if thorough { &SIB_MENU } else { &SIB_MENU[..3] };
        let tail: [u8; 10] = [0x10, 0, 0, 0, 0x20, 0, 0, 0, 0, 0];
        for p in LEGACY_PREFIXES.iter() {
            for rex in &rexes {
                for op in 0..512u32 {
                    for m in 0..256u32 {
                        let needs_sib = (m >> 6) != 3 && (m & 7) == 4;
                        let sl: &[u8] = if needs_sib { sibs } else { &[0u8] };
                        for sib in sl {
                            if !e.next() {
                                continue;
                            }
                            buf.clear();
                            buf.extend_from_slice(p);
                            if let Some(r) = rex {
                                buf.push(*r);
                            }
                            if op >= 256 {
                                buf.push(0x0F);
                            }
                            buf.push(op as u8);
                            buf.push(m as u8);
                            if needs_sib {
                                buf.push(*sib);
                            }
                            buf.extend_from_slice(&tail);
                            if e.cases & 0xFF == 0 {
                                // breadcrumbs are cheap but not free: every 256th case is exact,
                                // the ones between are attributed by re-running the window
                            }
                            e.describe("structured", &crate::common::hex(&buf[..buf.len().min(8)]));
                            one(e, &buf);
                        }
                    }
                }
            }
        }
    }
}

pub fn run(tier: Tier) -> i32 {
    let mut run = Run::new("C19", tier.clone());
    let o = EnumOpts {
        sup: crate::sup::SupOpts {
            hang_secs: 15,
            alloc_limit: 1 << 30,
            ..Default::default()
        },
        wall_cap_secs: if tier.is_thorough() { 2400 } else if crate::common::embedded_fd().is_some() { 1500 } else { 50 },
        crash_subject: "step".into(),
    };
    let g = gen(tier.is_thorough());
    if let Some(art) = crate::common::replay_artefact() {
        return crate::common::finish_replay("C19", &art, &|ws| confirm_enum(&o, &g, ws));
    }
    let out = run_enum(&o, &g);
    if tier.is_thorough() && crate::common::embedded_fd().is_none() {
        // the same enumeration (quick alphabets) in the dev-like build: debug assertions live,
        // debug_log! arguments evaluated
        let (f, summary) = crate::common::run_embedded("devlike", "C19");
        run.findings.merge(f);
        run.cov("devlike_profile_run", summary);
    }
    enum_evidence(&mut run, &out, "one case = a byte string used as code: (a) every 1- and 2-byte prefix x 4 fillers (thorough: every 3-byte prefix x 2 fillers), (b) legacy prefix menu x REX menu x every 1-byte and 0F-escaped opcode x every ModRM x SIB menu; each stepped in 5 (layout, register state) combinations: code only / code+data+stack with all registers pointing into mapped memory, code+data+stack with distinct filler and all flags set, and areas at both ends of the address space with all registers 0 / all registers 2^64-8, under catch_unwind, an allocation guard and a hang watchdog; states = distinct 8-byte code prefixes; distinct_nontrivial = distinct (first 8 bytes, outcome class and RIP of the 5 runs)");
    run.guard("cases", out.cases >= 1_000_000 || out.capped, format!("{} byte strings", out.cases));
    let okc = out.counters.get("ok").cloned().unwrap_or(0);
    let errc = out.counters.get("err").cloned().unwrap_or(0);
    run.guard("ok-and-err-both-seen", okc > 0 && errc > 0, format!("ok {okc} err {errc}"));
    run.assume("no native execution; only termination with Ok/Err is demanded");
    let code = run.finish_batch(&|ws| confirm_enum(&o, &g, ws));
    code
}
