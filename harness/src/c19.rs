//! C19 — a step on arbitrary code bytes and state terminates with success or an error.

use crate::common::{Run, Tier};
use crate::emu::StepOut;
use crate::enumrun::*;
use crate::tmpl::{LEGACY_PREFIXES, SIB_MENU};
use ax_x86::axecutor::Axecutor;
use ax_x86::state::registers::SupportedRegister as SR;
use serde_json::json;

const CODE_AT: u64 = 0x40_0000;
const DATA: u64 = 0x50_0000;
const STK: u64 = 0x60_0000;

fn machine(bytes: &[u8], layout: usize, regs: usize) -> Axecutor {
    let mut code = [0u8; 18];
    let n = bytes.len().min(18);
    code[..n].copy_from_slice(&bytes[..n]);
    let mut ax = Axecutor::new(&code, CODE_AT, CODE_AT).unwrap();
    if layout == 1 {
        ax.mem_init_area(DATA, vec![0x11; 0x100]).unwrap();
        ax.mem_init_area(STK, vec![0x22; 0x100]).unwrap();
    }
    if layout == 3 {
        // as layout 1, but the code may only be EXECUTED (no read permission): whatever the
        // emulator does with the bytes of a failing instruction, it cannot read them as data
        ax.mem_init_area(DATA, vec![0x11; 0x100]).unwrap();
        ax.mem_init_area(STK, vec![0x22; 0x100]).unwrap();
        ax.mem_prot(CODE_AT, 4).unwrap();
    }
    if layout == 2 {
        // areas at both ends of the address space: address arithmetic at the extremes
        ax.mem_init_area(0, vec![0x33; 0x100]).unwrap();
        ax.mem_init_area(0u64.wrapping_sub(0x100), vec![0x44; 0x100]).unwrap();
    }
    for k in 0..16 {
        let v = match regs {
            0 => DATA + 0x80,
            1 => crate::emu::filler_gpr(k),
            2 => 0,
            _ => 0xFFFF_FFFF_FFFF_FFF8,
        };
        ax.reg_write_64(crate::emu::GPR64[k], v).unwrap();
    }
    if regs == 0 {
        ax.reg_write_64(SR::RSP, STK + 0x80).unwrap();
        ax.reg_write_64(SR::RCX, 1).unwrap();
    } else {
        ax.verif_set_rflags(0x8d5);
    }
    // segment bases are register state too: zero, small, and large enough that offset + base
    // passes 2^64 (negative TLS offsets are the ordinary case of that)
    match regs {
        1 => {
            ax.write_fs(0x3000);
            ax.write_gs(0x0000_7000_0000_0000);
        }
        3 => {
            ax.write_fs(0x0000_7FFF_FFFF_F000);
            ax.write_gs(0xFFFF_FFFF_FFFF_F000);
        }
        _ => {}
    }
    ax
}

/// (c) the `syscall` instruction with every built-in handler installed: the handlers take
/// their arguments from guest registers, so extreme argument values are register states too.
const SYS_NUMS: [u64; 9] = [0, 1, 12, 22, 60, 158, 231, 2, u64::MAX];
fn sys_args(data: u64) -> [u64; 12] {
    [
        0,
        1,
        8,
        data + 0x10,
        data + 0xF9,
        data + 0x100,
        0x1001,
        0x1002,
        1 << 40,
        1 << 63,
        0xFFFF_FFFF_FFFF_FFF8,
        u64::MAX,
    ]
}

/// history 0: fresh machine; 1: a pipe holding three bytes and the heap exist (heap below the
/// code, so it can only grow until it meets the code); 2: as 1, but with the code at 0x1000 so
/// that the heap is the highest area below an area on the last page of the address space
fn sys_machine(history: usize) -> (Axecutor, [u64; 2], u64) {
    use ax_x86::helpers::syscalls::Syscall;
    // syscall x 4 ; nop
    let code = [0x0F, 0x05, 0x0F, 0x05, 0x0F, 0x05, 0x0F, 0x05, 0x90];
    let (code_at, data, stk) = if history == 2 { (0x1000, 0x2000, 0x3000) } else { (CODE_AT, DATA, STK) };
    let mut ax = Axecutor::new(&code, code_at, code_at).unwrap();
    ax.mem_init_area(data, vec![0x11; 0x100]).unwrap();
    ax.mem_init_area(stk, vec![0x22; 0x100]).unwrap();
    if history == 2 {
        ax.mem_init_area(0u64.wrapping_sub(0x100), vec![0x44; 0x100]).unwrap();
    }
    ax.reg_write_64(SR::RSP, stk + 0x80).unwrap();
    ax.handle_syscalls(vec![Syscall::Brk, Syscall::Pipe, Syscall::Exit, Syscall::ArchPrctl]).unwrap();
    let mut fds = [3u64, 4u64];
    if history >= 1 {
        for (rax, rdi, rsi, rdx) in [(22u64, data + 0x20, 0u64, 0u64), (1, u64::MAX, data, 3), (12, 0, 0, 0)] {
            ax.reg_write_64(SR::RAX, rax).unwrap();
            let rdi = if rdi == u64::MAX { ax.mem_read_64(data + 0x28).unwrap() } else { rdi };
            ax.reg_write_64(SR::RDI, rdi).unwrap();
            ax.reg_write_64(SR::RSI, rsi).unwrap();
            ax.reg_write_64(SR::RDX, rdx).unwrap();
            let _ = crate::emu::step(&mut ax);
        }
        fds = [ax.mem_read_64(data + 0x20).unwrap(), ax.mem_read_64(data + 0x28).unwrap()];
    }
    (ax, fds, data)
}

fn sys_sweep(e: &mut EnumCtx) {
    for history in 0..3usize {
        for rax in SYS_NUMS {
            for a in 0..12 + 2 {
                for b in 0..12 {
                    for c in 0..12 {
                        if !e.next() {
                            continue;
                        }
                        let (mut ax, fds, data) = sys_machine(history);
                        let args = sys_args(data);
                        // first argument: the alphabet plus the two live descriptors
                        let rdi = if a < 12 { args[a] } else { fds[a - 12] };
                        let (rsi, rdx) = (args[b], args[c]);
                        e.describe("syscall", &format!("history {history} rax={rax:#x} rdi={rdi:#x} rsi={rsi:#x} rdx={rdx:#x}"));
                        ax.reg_write_64(SR::RAX, rax).unwrap();
                        ax.reg_write_64(SR::RDI, rdi).unwrap();
                        ax.reg_write_64(SR::RSI, rsi).unwrap();
                        ax.reg_write_64(SR::RDX, rdx).unwrap();
                        let out = crate::emu::step(&mut ax);
                        e.count("transitions", 1);
                        e.count("syscall_cases", 1);
                        let mut f = crate::common::Fp::new();
                        f.u64(history as u64);
                        f.u64(rax);
                        f.u64(a as u64);
                        f.u64(rsi);
                        f.u64(rdx);
                        e.state(f.0);
                        match &out {
                            StepOut::Ok(_) => e.count("ok", 1),
                            StepOut::Err(_) => e.count("err", 1),
                            StepOut::Panic(p) => {
                                e.count("panic", 1);
                                let key = format!("syscall|panic@{}", p.tag());
                                e.finding(
                                    &key,
                                    || format!("`syscall` with the built-in handlers installed, rax={rax:#x} rdi={rdi:#x} rsi={rsi:#x} rdx={rdx:#x} (history {history}) panicked at {}: {}", p.loc, crate::emu::first_line(&p.msg)),
                                    || json!({"syscall": true, "history": history, "rax": rax, "rdi": rdi, "rsi": rsi, "rdx": rdx}),
                                );
                            }
                        }
                        f.u64(out.is_ok() as u64);
                        if let StepOut::Ok(_) = out {
                            f.u64(ax.reg_read_64(SR::RAX).unwrap());
                        }
                        e.outcome(f.0);
                    }
                }
            }
        }
    }
}

fn one(e: &mut EnumCtx, bytes: &[u8]) {
    let mut all = crate::common::Fp::new();
    all.bytes(&bytes[..bytes.len().min(8)]);
    e.state(all.0);
    for (layout, regs) in [(0usize, 0usize), (1, 0), (1, 1), (2, 2), (2, 3), (3, 0)] {
        {
            let mut ax = machine(bytes, layout, regs);
            let out = crate::emu::step(&mut ax);
            e.count("transitions", 1);
            match &out {
                StepOut::Ok(_) => e.count("ok", 1),
                StepOut::Err(_) => e.count("err", 1),
                StepOut::Panic(p) => {
                    e.count("panic", 1);
                    let key = format!("step|panic@{}", p.tag());
                    let instr = crate::tmpl::decode_at(bytes, CODE_AT).map(|d| format!("{}", d.instr)).unwrap_or_else(|| "<undecodable>".into());
                    e.finding(
                        &key,
                        || format!("step on bytes [{}] (`{}`) panicked at {}: {}", crate::common::hex(&bytes[..bytes.len().min(15)]), instr, p.loc, crate::emu::first_line(&p.msg)),
                        || json!({"bytes": crate::common::hex(bytes), "layout": layout, "regs": regs}),
                    );
                }
            }
            all.u64(out.is_ok() as u64);
            if let StepOut::Ok(_) = out {
                all.u64(crate::emu::rip(&ax));
            }
        }
    }
    e.outcome(all.0);
}

/// (d) a code area that ENDS inside the instruction: the first `cut` bytes of the string are
/// the whole code area (the decoder must notice that it ran out of bytes)
/// `follow`: what lies directly behind the cut code area - 0 nothing, 1 a 2-byte executable
/// area, 2 a 16-byte read/write area, 3 a 16-byte executable area (each holding the bytes the
/// instruction would continue with).
fn truncated(e: &mut EnumCtx, bytes: &[u8], cut: usize, follow: usize) {
    let code = &bytes[..cut];
    for regs in [0usize, 3] {
        if follow != 0 && regs != 0 {
            continue;
        }
        let mut ax = match Axecutor::new(code, CODE_AT, CODE_AT) {
            Ok(a) => a,
            Err(_) => return,
        };
        if follow != 0 {
            let n = if follow == 1 { 2 } else { 16 };
            let mut rest: Vec<u8> = bytes[cut..].iter().cloned().take(n).collect();
            rest.resize(n, 0x90);
            if ax.mem_init_area(CODE_AT + cut as u64, rest).is_err() {
                return;
            }
            let _ = ax.mem_prot(CODE_AT + cut as u64, if follow == 2 { 3 } else { 5 });
        }
        ax.mem_init_area(DATA, vec![0x11; 0x100]).unwrap();
        ax.mem_init_area(STK, vec![0x22; 0x100]).unwrap();
        for k in 0..16 {
            ax.reg_write_64(crate::emu::GPR64[k], if regs == 0 { DATA + 0x80 } else { 0xFFFF_FFFF_FFFF_FFF8 }).unwrap();
        }
        if regs == 0 {
            ax.reg_write_64(SR::RSP, STK + 0x80).unwrap();
        }
        let out = crate::emu::step(&mut ax);
        e.count("transitions", 1);
        e.count("truncated_cases", 1);
        match &out {
            StepOut::Ok(_) => e.count("ok", 1),
            StepOut::Err(_) => e.count("err", 1),
            StepOut::Panic(p) => {
                e.count("panic", 1);
                let key = format!("step|panic@{}", p.tag());
                e.finding(
                    &key,
                    || format!("step on a code area of {cut} byte(s) [{}] panicked at {}: {}", crate::common::hex(code), p.loc, crate::emu::first_line(&p.msg)),
                    || json!({"bytes": crate::common::hex(code), "truncated_code_area": cut, "regs": regs, "area_behind_the_code": (["none", "2 bytes X", "16 bytes RW", "16 bytes X"][follow])}),
                );
            }
        }
    }
}

/// (e) immediates and operand values: every register-direct instruction with an 8-bit immediate
/// (1-byte and 0F-escaped opcodes, with and without 66 / REX.W / REX.B) x all 256 immediates x
/// 8 values in every general-purpose register x flags all clear / all set.
fn imm8_value_sweep(e: &mut EnumCtx) {
    let prefixes: [&[u8]; 5] = [&[], &[0x66], &[0x48], &[0x41], &[0x66, 0x41]];
    let vals: [u64; 8] = [0, 1, 0x10, 0x80, 0xFF, 0x8000, 1 << 31, u64::MAX];
    for pfx in prefixes {
        for op in 0..512u32 {
            let opb: Vec<u8> = if op < 256 { vec![op as u8] } else { vec![0x0F, (op - 256) as u8] };
            // with a ModRM byte (register-direct) and without one
            let shapes: Vec<Option<u8>> = (0xC0..=0xFFu8).map(Some).chain(std::iter::once(None)).collect();
            for m in shapes {
                let mut head: Vec<u8> = pfx.to_vec();
                head.extend_from_slice(&opb);
                if let Some(m) = m {
                    head.push(m);
                }
                let mut probe = head.clone();
                probe.push(0x05);
                probe.extend_from_slice(&[0x90; 8]);
                let ok = match crate::tmpl::decode_at(&probe, CODE_AT) {
                    Some(d) => d.instr.len() == head.len() + 1 && d.co.immediate_size() == 1 && d.co.immediate_offset() == head.len() && !d.co.has_displacement(),
                    None => false,
                };
                if !ok {
                    continue;
                }
                for imm in 0..256u32 {
                    if !e.next() {
                        continue;
                    }
                    let mut code = head.clone();
                    code.push(imm as u8);
                    code.extend_from_slice(&[0x90; 4]);
                    e.describe("imm8-values", &crate::common::hex(&code[..head.len() + 1]));
                    let mut fp = crate::common::Fp::new();
                    fp.bytes(&code);
                    fp.u64(0x696d6d38);
                    e.state(fp.0);
                    let base = match Axecutor::new(&code, CODE_AT, CODE_AT) {
                        Ok(mut a) => {
                            a.mem_init_area(STK, vec![0x22; 0x100]).unwrap();
                            a
                        }
                        Err(_) => continue,
                    };
                    let mut oc = crate::common::Fp::new();
                    for v in vals {
                        for fl in [0u64, 0x8D5] {
                            let mut ax = base.clone();
                            for k in 0..16 {
                                ax.reg_write_64(crate::emu::GPR64[k], v).unwrap();
                            }
                            ax.reg_write_64(SR::RSP, STK + 0x80).unwrap();
                            ax.verif_set_rflags(fl);
                            let out = crate::emu::step(&mut ax);
                            e.count("transitions", 1);
                            e.count("imm8_value_steps", 1);
                            oc.str(out.class());
                            match &out {
                                StepOut::Ok(_) => e.count("ok", 1),
                                StepOut::Err(_) => e.count("err", 1),
                                StepOut::Panic(p) => {
                                    e.count("panic", 1);
                                    let key = format!("step|panic@{}", p.tag());
                                    e.finding(
                                        &key,
                                        || format!("step on [{}] with every register {v:#x} and flags {fl:#x} panicked at {}: {}", crate::common::hex(&code[..head.len() + 1]), p.loc, crate::emu::first_line(&p.msg)),
                                        || json!({"bytes": crate::common::hex(&code), "every_gpr": format!("{v:#x}"), "flags": format!("{fl:#x}")}),
                                    );
                                }
                            }
                        }
                    }
                    fp.u64(oc.0);
                    e.outcome(fp.0);
                }
            }
        }
    }
}

/// (f) histories: a failing step renders the machine's history (trace, call stack) into its
/// error, so whether it fails cleanly depends on what ran before. Every program of <= 4 items
/// over returns, calls, jumps, pushes / pops and failing instructions, run for up to 10 steps
/// on a stack of return addresses that lead from item to item.
fn history_sweep(e: &mut EnumCtx) {
    let items: [(&str, &[u8]); 12] = [
        ("ret", &[0xC3]),
        ("nop", &[0x90]),
        ("(invalid 06)", &[0x06]),
        ("int3", &[0xCC]),
        ("push rax", &[0x50]),
        ("pop rax", &[0x58]),
        ("call +0", &[0xE8, 0, 0, 0, 0]),
        ("jmp +0", &[0xEB, 0x00]),
        ("call rax", &[0xFF, 0xD0]),
        ("jmp rax", &[0xFF, 0xE0]),
        ("ret 8", &[0xC2, 0x08, 0x00]),
        ("mov rax,[rbx] (unmapped)", &[0x48, 0x8B, 0x03]),
    ];
    for len in 1..=4usize {
        for idx in 0..items.len().pow(len as u32) {
            if !e.next() {
                continue;
            }
            let mut code: Vec<u8> = vec![];
            let mut names: Vec<&str> = vec![];
            let mut starts: Vec<u64> = vec![];
            let mut r = idx;
            for _ in 0..len {
                starts.push(CODE_AT + code.len() as u64);
                let (n, b) = items[r % items.len()];
                r /= items.len();
                code.extend_from_slice(b);
                names.push(n);
            }
            e.describe("history", &names.join("; "));
            let mut fp = crate::common::Fp::new();
            fp.bytes(&code);
            fp.u64(0x68697374);
            e.state(fp.0);
            let mut ax = match Axecutor::new(&code, CODE_AT, CODE_AT) {
                Ok(a) => a,
                Err(_) => continue,
            };
            // the j-th return continues with the j-th item (the slot a RET reads moves up by one
            // with every return), later ones land on the last item
            let back = *starts.last().unwrap();
            let mut st = vec![0u8; 0x400];
            for q in 0..0x80usize {
                st[q * 8..q * 8 + 8].copy_from_slice(&back.to_le_bytes());
            }
            for (j, a) in starts.iter().enumerate() {
                let o = 0x200 + 8 * j;
                st[o..o + 8].copy_from_slice(&a.to_le_bytes());
            }
            ax.mem_init_area(STK, st).unwrap();
            for k in 0..16 {
                ax.reg_write_64(crate::emu::GPR64[k], back).unwrap();
            }
            ax.reg_write_64(SR::RBX, 0x10).unwrap();
            ax.reg_write_64(SR::RSP, STK + 0x200).unwrap();
            let mut oc = crate::common::Fp::new();
            for step in 0..10 {
                let out = crate::emu::step(&mut ax);
                e.count("transitions", 1);
                e.count("history_steps", 1);
                oc.str(out.class());
                match &out {
                    StepOut::Ok(true) => {}
                    StepOut::Ok(false) => break,
                    StepOut::Err(_) => {
                        // a failed step does not end the machine: go on from the next item (RIP
                        // has advanced), the history keeps growing
                    }
                    StepOut::Panic(p) => {
                        e.count("panic", 1);
                        let key = format!("step|panic@{}", p.tag());
                        let prog = names.join("; ");
                        e.finding(
                            &key,
                            || format!("step {step} of the program [{prog}] (returns lead from item to item) panicked at {}: {}", p.loc, crate::emu::first_line(&p.msg)),
                            || json!({"program": prog, "bytes": crate::common::hex(&code), "step": step}),
                        );
                        break;
                    }
                }
            }
            fp.u64(oc.0);
            e.outcome(fp.0);
        }
    }
}

fn gen(thorough: bool) -> impl Fn(&mut EnumCtx) + Sync {
    move |e: &mut EnumCtx| {
        sys_sweep(e);
        imm8_value_sweep(e);
        history_sweep(e);
        // (d) truncated code areas: every 1- and 2-byte prefix x 4 fillers x every cut 1..=14
        {
            let fillers: [[u8; 14]; 4] = [[0x00; 14], [0xFF; 14], [0x24, 0x25, 0x10, 0x20, 0x30, 0x40, 0x50, 0x60, 0x70, 0x80, 0x90, 0xA0, 0xB0, 0xC0], [0x90; 14]];
            let mut buf: Vec<u8> = Vec::with_capacity(24);
            for b01 in 0..65536u32 {
                for f in fillers.iter() {
                    for cut in 1..=14usize {
                        if !e.next() {
                            continue;
                        }
                        buf.clear();
                        buf.push((b01 >> 8) as u8);
                        buf.push(b01 as u8);
                        buf.extend_from_slice(f);
                        e.describe("truncated", &format!("{} cut {cut}", crate::common::hex(&buf[..cut.min(6)])));
                        let mut fp = crate::common::Fp::new();
                        fp.bytes(&buf[..cut]);
                        fp.u64(0x7472756e63);
                        e.state(fp.0);
                        e.outcome(fp.0);
                        let b = buf.clone();
                        truncated(e, &b, cut, 0);
                        // an instruction that runs past the end of its area INTO another one:
                        // the structured filler and the NOP filler, three kinds of neighbour
                        if f[0] == 0x24 || f[0] == 0x90 {
                            for follow in 1..=3 {
                                truncated(e, &b, cut, follow);
                            }
                        }
                    }
                }
            }
        }
        let fillers: [[u8; 14]; 4] = [[0x00; 14], [0xFF; 14], [0x24, 0x25, 0x10, 0x20, 0x30, 0x40, 0x50, 0x60, 0x70, 0x80, 0x90, 0xA0, 0xB0, 0xC0], [0x90; 14]];
        let mut buf: Vec<u8> = Vec::with_capacity(24);
        // (a) all 1- and 2-byte prefixes (thorough: all 3-byte prefixes)
        for b0 in 0..256u32 {
            for f in fillers.iter() {
                if !e.next() {
                    continue;
                }
                buf.clear();
                buf.push(b0 as u8);
                buf.extend_from_slice(f);
                e.describe("prefix1", &crate::common::hex(&buf[..4]));
                one(e, &buf);
            }
        }
        for b01 in 0..65536u32 {
            for f in fillers.iter() {
                if !e.next() {
                    continue;
                }
                buf.clear();
                buf.push((b01 >> 8) as u8);
                buf.push(b01 as u8);
                buf.extend_from_slice(f);
                e.describe("prefix2", &crate::common::hex(&buf[..4]));
                one(e, &buf);
            }
        }
        if thorough {
            for b in 0..(1u32 << 24) {
                for f in fillers.iter().take(2) {
                    if !e.next() {
                        continue;
                    }
                    buf.clear();
                    buf.push((b >> 16) as u8);
                    buf.push((b >> 8) as u8);
                    buf.push(b as u8);
                    buf.extend_from_slice(f);
                    e.describe("prefix3", &crate::common::hex(&buf[..5]));
                    one(e, &buf);
                }
            }
        }
        // (b) structured family: legacy prefix x REX x opcode x ModRM x SIB menu
        let rexes: Vec<Option<u8>> = if thorough {
            std::iter::once(None).chain((0x40..=0x4F).map(Some)).collect()
        } else {
            vec![None, Some(0x40), Some(0x41), Some(0x44), Some(0x48), Some(0x4C), Some(0x4F)]
        };
        let sibs: &[u8] = if thorough { &SIB_MENU } else { &SIB_MENU[..3] };
        let tail: [u8; 10] = [0x10, 0, 0, 0, 0x20, 0, 0, 0, 0, 0];
        for p in LEGACY_PREFIXES.iter() {
            for rex in &rexes {
                for op in 0..512u32 {
                    for m in 0..256u32 {
                        let needs_sib = (m >> 6) != 3 && (m & 7) == 4;
                        let sl: &[u8] = if needs_sib { sibs } else { &[0u8] };
                        for sib in sl {
                            if !e.next() {
                                continue;
                            }
                            buf.clear();
                            buf.extend_from_slice(p);
                            if let Some(r) = rex {
                                buf.push(*r);
                            }
                            if op >= 256 {
                                buf.push(0x0F);
                            }
                            buf.push(op as u8);
                            buf.push(m as u8);
                            if needs_sib {
                                buf.push(*sib);
                            }
                            buf.extend_from_slice(&tail);
                            if e.cases & 0xFF == 0 {
                                // breadcrumbs are cheap but not free: every 256th case is exact,
                                // the ones between are attributed by re-running the window
                            }
                            e.describe("structured", &crate::common::hex(&buf[..buf.len().min(8)]));
                            one(e, &buf);
                        }
                    }
                }
            }
        }
    }
}

pub fn run(tier: Tier) -> i32 {
    let mut run = Run::new("C19", tier.clone());
    let o = EnumOpts {
        sup: crate::sup::SupOpts {
            hang_secs: 15,
            alloc_limit: 1 << 30,
            ..Default::default()
        },
        wall_cap_secs: if tier.is_thorough() { 2400 } else if crate::common::embedded_fd().is_some() { 1500 } else { 50 },
        crash_subject: "step".into(),
    };
    let g = gen(tier.is_thorough());
    if let Some(art) = crate::common::replay_artefact() {
        return crate::common::finish_replay("C19", &art, &|ws| confirm_enum(&o, &g, ws));
    }
    let out = run_enum(&o, &g);
    if tier.is_thorough() && crate::common::embedded_fd().is_none() {
        // the same enumeration (quick alphabets) in the dev-like build: debug assertions live,
        // debug_log! arguments evaluated
        let (f, summary) = crate::common::run_embedded("devlike", "C19");
        run.findings.merge(f);
        run.cov("devlike_profile_run", summary);
    }
    enum_evidence(&mut run, &out, "one case = a byte string used as code: (a) every 1- and 2-byte prefix x 4 fillers (thorough: every 3-byte prefix x 2 fillers), (b) legacy prefix menu x REX menu x every 1-byte and 0F-escaped opcode x every ModRM x SIB menu; each stepped in 6 (layout, register state) combinations (one of them with an execute-only code area): code only / code+data+stack with all registers pointing into mapped memory, code+data+stack with distinct filler and all flags set, and areas at both ends of the address space with all registers 0 / all registers 2^64-8, under catch_unwind, an allocation guard and a hang watchdog; FS/GS bases are part of the register state (0 / small / large enough to wrap); (c) the `syscall` instruction with the built-in brk/pipe/exit/arch_prctl handlers installed x 9 syscall numbers x (12 boundary values + the live pipe descriptors) x 12 x 12 argument values, on a fresh machine, on one where a pipe holding data and the heap exist, and on one where in addition the heap is the highest area below an area on the last page of the address space; (d) every 2-byte prefix x 4 fillers cut to every length 1..14 as the WHOLE code area (an instruction that runs past the end of the code), for two of the fillers also with another area directly behind the code (2 bytes executable / 16 bytes read-write / 16 bytes executable); (e) every register-direct instruction with an 8-bit immediate (1-byte and 0F-escaped opcodes, plain / 66 / REX.W / REX.B) x all 256 immediates x 8 values in every general-purpose register x flags clear / set; (f) every program of <= 4 items over {ret, nop, an invalid byte, int3, push, pop, call +0, jmp +0, call rax, jmp rax, ret 8, a faulting load} run for up to 10 steps on a stack full of return addresses (a failing step renders the history that precedes it); states = distinct 8-byte code prefixes; distinct_nontrivial = distinct (first 8 bytes, outcome class and RIP of the 5 runs)");
    run.guard("cases", out.cases >= 1_000_000 || out.capped, format!("{} byte strings", out.cases));
    let okc = out.counters.get("ok").cloned().unwrap_or(0);
    let errc = out.counters.get("err").cloned().unwrap_or(0);
    run.guard("ok-and-err-both-seen", okc > 0 && errc > 0, format!("ok {okc} err {errc}"));
    run.assume("no native execution; only termination with Ok/Err is demanded");
    let code = run.finish_batch(&|ws| confirm_enum(&o, &g, ws));
    code
}
