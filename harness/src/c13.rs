//! C13 — built-in brk handler gives the guest a working, growing heap.

use crate::common::{Run, Tier};
use crate::emu::StepOut;
use crate::stexp::*;
use ax_x86::axecutor::Axecutor;
use ax_x86::helpers::syscalls::Syscall;
use ax_x86::state::registers::SupportedRegister as SR;
use serde::{Deserialize, Serialize};
use serde_json::json;
use std::collections::BTreeMap;
use std::sync::Arc;

const CODE_AT: u64 = 0x1000;
const OFF_SYSCALL: u64 = 0x00;
const OFF_STORE: u64 = 0x10; // mov [rbx],al
const OFF_LOAD: u64 = 0x20; // mov al,[rbx]

#[derive(Clone, Debug, PartialEq, Serialize, Deserialize)]
pub enum Arg {
    Zero,
    H,
    HPlus(u64),
    K,
    /// below the heap base: unspecified by the property, crash-freedom only
    Below(u64),
}

#[derive(Clone, Debug, PartialEq, Serialize, Deserialize)]
pub enum Addr {
    H,
    H1,
    KMinus1,
    Mid,
}

#[derive(Clone, Debug, PartialEq, Serialize, Deserialize)]
pub enum Op {
    Brk(Arg),
    Store(Addr),
    Load(Addr),
    /// the HOST maps 16 bytes at heap base + 0x2800 (not page aligned) while the heap already exists (an area that
    /// is younger than the heap): from then on the break cannot pass it
    MapAbove,
}

#[derive(Clone, Debug, PartialEq, Eq, Hash)]
pub struct M {
    pub h: Option<u64>,
    pub k: u64,
    /// bytes stored by the guest that have stayed below the break ever since
    pub bytes: BTreeMap<u64, u8>,
    /// other areas (start, len) of the layout
    pub others: Vec<(u64, u64)>,
    pub stores: u64,
}

pub struct C13 {
    pub thorough: bool,
}

fn overlaps(a: u64, alen: u64, b: u64, blen: u64) -> bool {
    alen != 0 && blen != 0 && (a as u128) < b as u128 + blen as u128 && (b as u128) < a as u128 + alen as u128
}

impl M {
    fn addr(&self, a: &Addr) -> Option<u64> {
        let h = self.h?;
        if self.k <= h {
            return None;
        }
        Some(match a {
            Addr::H => h,
            Addr::H1 => {
                if h + 1 >= self.k {
                    return None;
                }
                h + 1
            }
            Addr::KMinus1 => self.k - 1,
            Addr::Mid => h + (self.k - h) / 2,
        })
    }
    fn class(&self) -> String {
        match self.h {
            None => "heap-unborn".into(),
            Some(h) if self.k == h => "heap-empty".into(),
            Some(_) => "heap-nonempty".into(),
        }
    }
}

fn guest(ax: &mut Axecutor, off: u64, rax: u64, rdi: u64, rbx: u64) -> StepOut {
    ax.reg_write_64(SR::RAX, rax).unwrap();
    ax.reg_write_64(SR::RDI, rdi).unwrap();
    ax.reg_write_64(SR::RBX, rbx).unwrap();
    ax.reg_write_64(SR::RIP, CODE_AT + off).unwrap();
    crate::emu::step(ax)
}

fn areas_fp(ax: &Axecutor) -> u64 {
    let mut f = crate::common::Fp::new();
    let mut a = ax.verif_areas();
    a.sort_by_key(|x| (x.start, x.length));
    for x in &a {
        f.u64(x.start);
        f.u64(x.length);
        f.u64(x.access as u64);
        f.bytes(&x.data);
    }
    f.str(&crate::emu::canon_syscall_state(&ax.verif_syscall_state_debug()));
    f.u64(ax.verif_finished() as u64);
    f.0
}

impl Spec for C13 {
    type Op = Op;
    type M = M;

    fn inits(&self) -> Vec<(String, Axecutor, M)> {
        let mut code = vec![0x90u8; 0x40];
        code[0..2].copy_from_slice(&[0x0F, 0x05]);
        code[0x10..0x12].copy_from_slice(&[0x88, 0x03]);
        code[0x20..0x22].copy_from_slice(&[0x8A, 0x03]);
        let layouts: Vec<(&str, Vec<(u64, u64)>)> = vec![
            ("code-only", vec![]),
            ("area-above-heap", vec![(0x3000, 0x1000)]),
            ("area-at-0x2000", vec![(0x2000, 0x800)]),
            ("area-far-above", vec![(0x5000, 0x100)]),
        ];
        let mut out = vec![];
        for (n, extra) in layouts {
            let mut ax = Axecutor::new(&code, CODE_AT, CODE_AT).unwrap();
            for (s, l) in &extra {
                ax.mem_init_zero(*s, *l).unwrap();
            }
            ax.handle_syscalls(vec![Syscall::Brk]).unwrap();
            for k in 0..16 {
                ax.reg_write_64(crate::emu::GPR64[k], crate::emu::filler_gpr(k)).unwrap();
            }
            let mut others = vec![(CODE_AT, code.len() as u64)];
            others.extend(extra.iter().cloned());
            out.push((
                n.to_string(),
                ax,
                M {
                    h: None,
                    k: 0,
                    bytes: BTreeMap::new(),
                    others,
                    stores: 0,
                },
            ));
        }
        out
    }

    fn ops(&self, m: &M, _depth: usize) -> Vec<Op> {
        if m.h.is_none() {
            return vec![Op::Brk(Arg::Zero)];
        }
        let mut v = vec![
            Op::Brk(Arg::Zero),
            Op::Brk(Arg::H),
            Op::Brk(Arg::HPlus(1)),
            Op::Brk(Arg::HPlus(0x10)),
            Op::Brk(Arg::HPlus(0x1000)),
            Op::Brk(Arg::HPlus(0x1001)),
            Op::Brk(Arg::HPlus(0x2400)),
            Op::Brk(Arg::HPlus(0x3000)),
            Op::Brk(Arg::K),
            Op::Brk(Arg::Below(0x10)),
            Op::Brk(Arg::Below(u64::MAX)),
        ];
        for a in [Addr::H, Addr::H1, Addr::KMinus1, Addr::Mid] {
            v.push(Op::Store(a.clone()));
            v.push(Op::Load(a));
        }
        if let Some(h) = m.h {
            if !m.others.iter().any(|(s, _)| *s == h + 0x2800) {
                v.push(Op::MapAbove);
            }
        }
        v
    }

    fn apply(&self, ax: &mut Axecutor, m: &M, op: &Op, soft: &mut Vec<Divergence>) -> Result<Option<M>, Divergence> {
        let mut m2 = m.clone();
        let before = areas_fp(ax);
        match op {
            Op::Brk(arg) => {
                let p = match arg {
                    Arg::Zero => 0,
                    Arg::H => m.h.unwrap_or(0),
                    Arg::HPlus(d) => m.h.unwrap_or(0) + d,
                    Arg::K => m.k,
                    Arg::Below(d) => m.h.unwrap_or(0).saturating_sub(*d).max(1),
                };
                if let Arg::Below(_) = arg {
                    // crash-freedom only; the model cannot follow, so nothing is explored below
                    return match guest(ax, OFF_SYSCALL, 12, p, 0) {
                        StepOut::Panic(pn) => Err(div(format!("brk|panic@{}|below-base", pn.tag()), format!("brk({p:#x}) below the heap base {:#x} panicked: {}", m.h.unwrap_or(0), crate::emu::first_line(&pn.msg)))),
                        _ => Ok(None),
                    };
                }
                if p == 0 && !matches!(arg, Arg::Zero) {
                    return Ok(None);
                }
                let akind = match arg {
                    Arg::Zero => "query",
                    _ if m.h == Some(p) => "to-base",
                    _ if p == m.k => "same",
                    _ if p > m.k => "grow",
                    _ => "shrink",
                };
                let out = guest(ax, OFF_SYSCALL, 12, p, 0);
                let rax = ax.reg_read_64(SR::RAX).unwrap();
                match out {
                    StepOut::Panic(pn) => return Err(div(format!("brk|panic@{}|{akind}", pn.tag()), format!("brk({p:#x}) panicked: {}", crate::emu::first_line(&pn.msg)))),
                    StepOut::Err(e) => {
                        if matches!(arg, Arg::Zero) {
                            return Err(div("brk|query-failed", format!("brk(0) failed: {}", crate::emu::first_line(&e))));
                        }
                        let h = m.h.unwrap();
                        let collides = m.others.iter().any(|(s, l)| overlaps(h, p - h, *s, *l));
                        if !collides {
                            return Err(div(format!("brk|failed-without-collision|{akind}"), format!("brk({p:#x}) with heap base {h:#x}, break {:#x} failed although [base, p) meets no other area: {}", m.k, crate::emu::first_line(&e))));
                        }
                        // clean failure: nothing about the heap may have changed
                        if areas_fp(ax) != before {
                            return Err(div(format!("brk|failure-changed-state|{akind}"), format!("failing brk({p:#x}) changed memory or the heap bookkeeping")));
                        }
                        return Ok(None);
                    }
                    StepOut::Ok(_) => {}
                }
                match arg {
                    Arg::Zero => {
                        match m.h {
                            None => {
                                if rax == 0 {
                                    return Err(div("brk|query-returned-null", "first brk(0) returned 0".to_string()));
                                }
                                // the heap base is where the heap area starts (the first break
                                // lies above it by the initial heap size): the property lets the
                                // guest move the break anywhere at or above the BASE
                                let base = ax
                                    .verif_areas()
                                    .iter()
                                    .find(|a| a.start as u128 + a.length as u128 == rax as u128 && !m.others.iter().any(|(s, _)| *s == a.start))
                                    .map(|a| a.start);
                                let base = match base {
                                    Some(b) => b,
                                    None => return Err(div("brk|no-heap-area-below-first-break", format!("first brk(0) returned {rax:#x} but no area ends there"))),
                                };
                                m2.h = Some(base);
                                m2.k = rax;
                            }
                            Some(_) => {
                                if rax != m.k {
                                    return Err(div(
                                        format!("brk|query-returns-wrong-break|{}", if m.k == m.h.unwrap() { "never-moved" } else { "after-move" }),
                                        format!("brk(0) returned {rax:#x}; the break was last moved to {:#x} (heap base {:#x})", m.k, m.h.unwrap()),
                                    ));
                                }
                            }
                        }
                    }
                    _ => {
                        let h = m.h.unwrap();
                        let collides = m.others.iter().any(|(s, l)| overlaps(h, p - h, *s, *l));
                        if rax != p {
                            if collides {
                                // failure signalled through the return value: accepted when clean
                                if areas_fp(ax) != before {
                                    return Err(div(format!("brk|failure-changed-state|{akind}"), format!("brk({p:#x}) returned {rax:#x} and changed memory")));
                                }
                                return Ok(None);
                            }
                            return Err(div(format!("brk|wrong-return|{akind}"), format!("brk({p:#x}) returned {rax:#x} (heap base {h:#x}, previous break {:#x})", m.k)));
                        }
                        m2.k = p;
                        // bytes at or above the new break are released
                        m2.bytes.retain(|a, _| *a < p);
                    }
                }
            }
            Op::MapAbove => {
                let h = m.h.unwrap();
                let at = h + 0x2800;
                if m.k > at || m.others.iter().any(|(s, l)| overlaps(at, 0x10, *s, *l)) {
                    return Ok(None); // no room there in this state
                }
                match crate::emu::guarded(|| ax.mem_init_zero(at, 0x10).map_err(|e| e.to_string())) {
                    Ok(Ok(())) => {}
                    _ => return Ok(None), // creation is C10's subject
                }
                m2.others.push((at, 0x10));
            }
            Op::Store(a) | Op::Load(a) => {
                let addr = match m.addr(a) {
                    Some(x) => x,
                    None => return Ok(None),
                };
                let store = matches!(op, Op::Store(_));
                let val = (0xA0 + (m.stores % 0x50)) as u8;
                let out = guest(ax, if store { OFF_STORE } else { OFF_LOAD }, if store { val as u64 } else { 0 }, 0, addr);
                let what = if store { "guest-store" } else { "guest-load" };
                let pos = match a {
                    Addr::H => "at-base",
                    Addr::H1 => "base+1",
                    Addr::KMinus1 => "below-break",
                    Addr::Mid => "middle",
                };
                match out {
                    StepOut::Panic(pn) => return Err(div(format!("{what}|panic@{}|{pos}", pn.tag()), format!("{what} at {addr:#x} panicked"))),
                    StepOut::Err(e) => {
                        // every byte between heap base and break is readable and writable; the
                        // model still tracks the code afterwards
                        soft.push(div(
                            format!("{what}|rejected-below-break|{pos}"),
                            format!("{what} at {addr:#x} failed although heap base {:#x} <= addr < break {:#x}: {}", m.h.unwrap(), m.k, crate::emu::first_line(&e)),
                        ));
                        return Ok(None);
                    }
                    StepOut::Ok(_) => {}
                }
                if store {
                    m2.bytes.insert(addr, val);
                    m2.stores += 1;
                } else if let Some(want) = m.bytes.get(&addr) {
                    let got = (ax.reg_read_64(SR::RAX).unwrap() & 0xFF) as u8;
                    if got != *want {
                        return Err(div(format!("guest-load|lost-heap-byte|{pos}"), format!("load at {addr:#x} = {got:#04x}, last stored {want:#04x} (never released)")));
                    }
                }
            }
        }
        // every remembered byte is still there (read through the API)
        for (a, v) in &m2.bytes {
            match ax.mem_read_8(*a) {
                Ok(x) if x as u8 == *v => {}
                other => {
                    return Err(div(
                        "heap|byte-not-kept".to_string(),
                        format!("after {op:?}: heap byte {a:#x} reads {other:?}, last stored {v:#04x}; it never left [base, break)"),
                    ))
                }
            }
        }
        Ok(Some(m2))
    }

    fn invariants(&self, sut: &Axecutor, _m: &M) -> Vec<Divergence> {
        let a = sut.verif_areas();
        for i in 0..a.len() {
            for j in i + 1..a.len() {
                if overlaps(a[i].start, a[i].length, a[j].start, a[j].length) {
                    return vec![div(
                        "invariant|heap-overlaps-area",
                        format!("areas [{:#x},+{:#x}) and [{:#x},+{:#x}) overlap", a[i].start, a[i].length, a[j].start, a[j].length),
                    )];
                }
            }
        }
        vec![]
    }

    fn fingerprint(&self, sut: &Axecutor) -> u64 {
        areas_fp(sut)
    }

    fn crash_class(&self, m: &M, op: &Op) -> String {
        let k = match op {
            Op::Brk(Arg::Zero) => "brk-query",
            Op::Brk(_) => "brk-move",
            Op::MapAbove => "map-above",
            Op::Store(_) => "store",
            Op::Load(_) => "load",
        };
        format!("{k}|{}", m.class())
    }
}

pub fn run(tier: Tier) -> i32 {
    let mut run = Run::new("C13", tier.clone());
    let spec = Arc::new(C13 { thorough: tier.is_thorough() });
    if let Some(art) = crate::common::replay_artefact() {
        return crate::common::finish_replay("C13", &art, &|ws| ws.iter().map(|w| confirm_stexp(&*spec, w)).collect());
    }
    let depth = std::env::var("VERIF_DEPTH").ok().and_then(|s| s.parse().ok()).unwrap_or(if tier.is_thorough() { 11 } else { 9 }); // (depth 12 needed 44 GB once the host-mapping operation joined the alphabet)
    let out = run_stexp(Arc::clone(&spec), depth, crate::common::ncpu(), 1 << 30, if tier.is_thorough() { 1500 } else { 45 });
    st_evidence(&mut run, &out, depth, "guest syscall brk(p) with p in {0, H, H+1, H+0x10, H+0x1000, H+0x1001, H+0x2400, H+0x3000, K}, the host mapping 16 bytes at H+0x2800 once the heap exists (H = heap base = start of the heap area, K = model break; the first break lies 0x1000 above H); guest `mov [rbx],al` / `mov al,[rbx]` at {H, H+1, K-1, middle}; 4 layouts (code only, area just above the heap, area at 0x2000, area far above)");
    run.guard("states", out.states >= 20, format!("{} states", out.states));
    run.assume("brk below the heap base and accesses at or above the break are not enumerated; bytes released by a shrink are forgotten by the model");
    let spec2 = Arc::clone(&spec);
    run.finish(&move |w| confirm_stexp(&*spec2, w))
}
