//! enum engine: supervised exhaustive enumerators (DESIGN §3.1 engine 3, §3.3).

use crate::common::{Finding, Findings};
use crate::sup::{self, SupOpts, WorkerCtx};
use serde_json::{json, Value};
use std::collections::{BTreeMap, HashSet};

pub struct EnumCtx<'a> {
    pub ctx: &'a mut WorkerCtx,
    pub idx: u64,
    pub findings: Findings,
    pub counters: BTreeMap<String, u64>,
    pub distinct: HashSet<u64>,
    pub states: HashSet<u64>,
    pub samples: Vec<Value>,
    pub deadline: std::time::Instant,
    pub capped: bool,
    pub cases: u64,
}

impl<'a> EnumCtx<'a> {
    /// Advances the case index; true when this worker runs the case.
    #[inline]
    pub fn next(&mut self) -> bool {
        let i = self.idx;
        self.idx += 1;
        if self.capped {
            return false;
        }
        if i & 0x3FF == 0 && std::time::Instant::now() > self.deadline {
            self.capped = true;
            return false;
        }
        if self.ctx.want(i) {
            self.cases += 1;
            true
        } else {
            false
        }
    }
    /// `class` becomes part of the key if the process dies on this case.
    pub fn describe(&mut self, class: &str, detail: &str) {
        self.ctx.describe(&format!("{class}\t{detail}"));
    }
    pub fn count(&mut self, name: &str, n: u64) {
        *self.counters.entry(name.to_string()).or_insert(0) += n;
    }
    pub fn outcome(&mut self, h: u64) {
        self.distinct.insert(h);
    }
    pub fn state(&mut self, h: u64) {
        self.states.insert(h);
    }
    pub fn sample(&mut self, v: impl FnOnce() -> Value) {
        if self.samples.len() < 2 && self.cases % 97 == 1 {
            self.samples.push(v());
        }
    }
    pub fn finding(&mut self, key: &str, what: impl FnOnce() -> String, witness: impl FnOnce() -> Value) {
        let is_new = !self.findings.map.contains_key(key);
        let idx = self.idx.saturating_sub(1);
        self.findings.add(key, what, || {
            let mut w = witness();
            if let Some(o) = w.as_object_mut() {
                o.insert("engine".into(), json!("enum"));
                o.insert("case_idx".into(), json!(idx));
            } else {
                w = json!({"engine": "enum", "case_idx": idx, "detail": w});
            }
            w
        });
        if is_new {
            let f = &self.findings.map[key];
            let v = json!({"early_finding": {"key": f.key, "what": f.what, "witness": f.witness, "count": 0}});
            self.ctx.emit(&v);
            self.ctx.flush();
        }
    }
}

pub struct EnumOutcome {
    pub findings: Findings,
    pub counters: BTreeMap<String, u64>,
    pub cases: u64,
    pub distinct: u64,
    pub states: u64,
    pub samples: Vec<Value>,
    pub capped: bool,
    pub crash_events: usize,
    pub indices: u64,
}

pub struct EnumOpts {
    pub sup: SupOpts,
    pub wall_cap_secs: u64,
    /// key prefix for process deaths
    pub crash_subject: String,
}

fn scratch(run_id: u32, shard: usize, tag: &str, kind: &str) -> std::path::PathBuf {
    let p = std::path::Path::new(crate::common::VERIF_ROOT).join(".build").join("scratch");
    let _ = std::fs::create_dir_all(&p);
    p.join(format!("{run_id}.{shard}.{tag}.{kind}"))
}

pub fn run_enum(o: &EnumOpts, gen: &(dyn Fn(&mut EnumCtx) + Sync)) -> EnumOutcome {
    let run_id = std::process::id();
    let deadline = std::time::Instant::now() + std::time::Duration::from_secs(o.wall_cap_secs);
    let mut findings = Findings::new();
    let mut counters: BTreeMap<String, u64> = BTreeMap::new();
    let mut cases = 0u64;
    let mut samples = vec![];
    let mut capped = false;
    let mut indices = 0u64;
    let worker = |ctx: &mut WorkerCtx| {
        let shard = ctx.shard;
        let single = ctx.only.is_some();
        let tag = if ctx.resume_after.is_some() { format!("r{}", std::process::id()) } else { "0".into() };
        let mut e = EnumCtx {
            ctx,
            idx: 0,
            findings: Findings::new(),
            counters: BTreeMap::new(),
            distinct: HashSet::new(),
            states: HashSet::new(),
            samples: vec![],
            // the wall-clock cap bounds the enumeration, not the confirmation of one case
            deadline: if single { std::time::Instant::now() + std::time::Duration::from_secs(3600) } else { deadline },
            capped: false,
            cases: 0,
        };
        // what has been counted so far survives an oversized-allocation exit
        struct Em {
            e: *mut EnumCtx<'static>,
            run_id: u32,
            shard: usize,
            single: bool,
        }
        fn finish(e: &mut EnumCtx, run_id: u32, shard: usize, single: bool, tag: &str) {
            if !single {
                for (kind, set) in [("dis", &e.distinct), ("sta", &e.states)] {
                    let mut v: Vec<u8> = Vec::with_capacity(set.len() * 8);
                    for h in set.iter() {
                        v.extend_from_slice(&h.to_le_bytes());
                    }
                    let _ = std::fs::write(scratch(run_id, shard, tag, kind), v);
                }
            }
            let v = json!({
                "summary": true,
                "findings": e.findings.to_json(),
                "counters": e.counters,
                "cases": e.cases,
                "samples": e.samples,
                "capped": e.capped,
                "indices": e.idx,
            });
            e.ctx.emit(&v);
            e.ctx.flush();
        }
        fn emergency(arg: usize) {
            let em = unsafe { &*(arg as *const Em) };
            let e: &mut EnumCtx = unsafe { &mut *(em.e as *mut EnumCtx) };
            // the dying case itself is accounted for by the supervisor's event
            finish(e, em.run_id, em.shard, em.single, &format!("x{}", std::process::id()));
        }
        let em = Box::new(Em {
            e: &mut e as *mut EnumCtx as *mut EnumCtx<'static>,
            run_id,
            shard,
            single,
        });
        sup::EMERGENCY_ARG.store(&*em as *const Em as usize, std::sync::atomic::Ordering::SeqCst);
        sup::EMERGENCY_FN.store(emergency as fn(usize) as usize, std::sync::atomic::Ordering::SeqCst);
        gen(&mut e);
        if single && std::env::var_os("AXMC_DEBUG_SINGLE").is_some() {
            eprintln!("single run of {:?}: cases {} findings {:?}", e.ctx.only, e.cases, e.findings.map.keys().collect::<Vec<_>>());
        }
        sup::EMERGENCY_FN.store(0, std::sync::atomic::Ordering::SeqCst);
        e.ctx.idle();
        finish(&mut e, run_id, shard, single, &tag);
        drop(em);
    };
    let res = sup::run_sharded(&o.sup, &worker, &mut |_s, v: Value| {
        if !v["early_finding"].is_null() {
            let mut a = Findings::from_json(&json!([v["early_finding"].clone()]));
            for f in a.map.values_mut() {
                f.count = 0;
            }
            findings.merge(a);
            return;
        }
        findings.merge(Findings::from_json(&v["findings"]));
        if let Some(c) = v["counters"].as_object() {
            for (k, n) in c {
                *counters.entry(k.clone()).or_insert(0) += n.as_u64().unwrap_or(0);
            }
        }
        cases += v["cases"].as_u64().unwrap_or(0);
        capped |= v["capped"].as_bool().unwrap_or(false);
        indices = indices.max(v["indices"].as_u64().unwrap_or(0));
        if let Some(a) = v["samples"].as_array() {
            for s in a {
                if samples.len() < 4 {
                    samples.push(s.clone());
                }
            }
        }
    });
    // process deaths: re-run the case alone, twice
    let mut confirmed: std::collections::BTreeSet<String> = std::collections::BTreeSet::new();
    for ev in &res.events {
        let class = ev.desc.split('\t').next().unwrap_or("").to_string();
        let how = ev.how.split(':').next().unwrap_or("").to_string();
        // every class of death is confirmed in isolation once; later members are counted.
        // "Reproduces" = the case alone does not return either. The manner may differ (a loop
        // that also allocates ends as a hang or as an oversized allocation depending on which
        // guard fires first): the key then says `no-return` instead of the manner.
        let reps = if confirmed.insert(format!("{how}|{class}")) { 2 } else { 0 };
        let mut manners: Vec<String> = vec![];
        for _ in 0..reps {
            let (h, _m) = sup::run_single(&o.sup, ev.case_idx, o.sup.hang_secs + 20, &worker);
            manners.push(h.split(':').next().unwrap_or("").to_string());
        }
        if manners.iter().any(|h| h == "ok") {
            crate::common::machinery_error(&format!(
                "worker death ({}) on case {} [{}] did not reproduce (alone: {:?})",
                ev.how, ev.case_idx, ev.desc, manners
            ));
        }
        let how = if manners.iter().all(|h| *h == how) { how } else { "no-return".to_string() };
        let key = format!("{}|{}|{}", o.crash_subject, how, class);
        findings.merge_one(
            key.clone(),
            Finding {
                key,
                what: format!("process {} ({}) on case {}: {}", if how == "hang" { "hangs" } else { "dies" }, ev.how, ev.case_idx, ev.desc.replace('\t', " ")),
                witness: json!({"engine": "enum-crash", "key": format!("{}|{}|{}", o.crash_subject, how, class), "case_idx": ev.case_idx, "how": ev.how, "desc": ev.desc}),
                count: 1,
            },
        );
    }
    let mut distinct = 0u64;
    let mut states = 0u64;
    for (kind, out) in [("dis", &mut distinct), ("sta", &mut states)] {
        let dir = std::path::Path::new(crate::common::VERIF_ROOT).join(".build").join("scratch");
        let mut all: Vec<u64> = vec![];
        if let Ok(rd) = std::fs::read_dir(&dir) {
            for e in rd.flatten() {
                let n = e.file_name().to_string_lossy().to_string();
                if n.starts_with(&format!("{run_id}.")) && n.ends_with(&format!(".{kind}")) {
                    if let Ok(b) = std::fs::read(e.path()) {
                        for c in b.chunks_exact(8) {
                            all.push(u64::from_le_bytes(c.try_into().unwrap()));
                        }
                    }
                    let _ = std::fs::remove_file(e.path());
                }
            }
        }
        all.sort_unstable();
        all.dedup();
        *out = all.len() as u64;
    }
    EnumOutcome {
        findings,
        counters,
        cases,
        distinct,
        states,
        samples,
        capped: capped || res.capped,
        crash_events: res.events.len(),
        indices,
    }
}

/// Re-runs single cases by index in fresh workers and returns the keys each produces.
pub fn confirm_enum(
    o: &EnumOpts,
    gen: &(dyn Fn(&mut EnumCtx) + Sync),
    ws: &[Value],
) -> Vec<Result<Vec<String>, String>> {
    let deadline = std::time::Instant::now() + std::time::Duration::from_secs(3600);
    ws.iter()
        .map(|w| {
            if w["engine"] == "enum-crash" {
                let key = w["key"].as_str().unwrap_or("").to_string();
                if crate::common::replay_artefact().is_none() {
                    // confirmed twice in isolation by run_enum a moment ago
                    return Ok(vec![key]);
                }
                // replay of a stored artefact: the case must still not return
                let idx = match w["case_idx"].as_u64() {
                    Some(i) => i,
                    None => return Err("witness has no case index".to_string()),
                };
                let worker = |ctx: &mut WorkerCtx| {
                    let mut e = EnumCtx {
                        ctx,
                        idx: 0,
                        findings: Findings::new(),
                        counters: BTreeMap::new(),
                        distinct: HashSet::new(),
                        states: HashSet::new(),
                        samples: vec![],
                        deadline,
                        capped: false,
                        cases: 0,
                    };
                    gen(&mut e);
                };
                let (how, _msgs) = sup::run_single(&o.sup, idx, o.sup.hang_secs + 20, &worker);
                return Ok(if how == "ok" { vec![] } else { vec![key] });
            }
            let idx = match w["case_idx"].as_u64() {
                Some(i) => i,
                None => return Err("witness has no case index".to_string()),
            };
            let worker = |ctx: &mut WorkerCtx| {
                let mut e = EnumCtx {
                    ctx,
                    idx: 0,
                    findings: Findings::new(),
                    counters: BTreeMap::new(),
                    distinct: HashSet::new(),
                    states: HashSet::new(),
                    samples: vec![],
                    deadline,
                    capped: false,
                    cases: 0,
                };
                gen(&mut e);
                let keys: Vec<String> = e.findings.map.keys().cloned().collect();
                e.ctx.emit(&json!({"keys": keys}));
            };
            let (how, msgs) = sup::run_single(&o.sup, idx, 120, &worker);
            if how != "ok" {
                return Err(format!("replay worker: {how}"));
            }
            let mut keys = vec![];
            for m in msgs {
                if let Some(a) = m["keys"].as_array() {
                    for k in a {
                        keys.push(k.as_str().unwrap_or("").to_string());
                    }
                }
            }
            keys.sort();
            Ok(keys)
        })
        .collect()
}

pub fn enum_evidence(run: &mut crate::common::Run, out: &EnumOutcome, rule: &str) {
    run.findings.merge(out.findings.clone());
    run.cov("states", json!(out.states.max(1)));
    run.cov("transitions", json!(out.counters.get("transitions").cloned().unwrap_or(out.cases)));
    run.cov("traces_validated_against_impl", json!(out.cases));
    run.cov("evaluations", json!(out.cases));
    run.cov("distinct_nontrivial", json!(out.distinct));
    run.cov("rule", json!(rule));
    run.cov("exhaustive", json!(!out.capped));
    run.cov("counters", json!(out.counters));
    run.cov("worker_crash_events", json!(out.crash_events));
    run.cov("enumeration_indices", json!(out.indices));
    let mut s = out.samples.clone();
    if s.is_empty() {
        s.push(json!("no sample captured"));
    }
    run.cov("samples", json!(s));
    if out.capped {
        run.cov("cap_hit", json!("wall-clock cap; enumeration_indices is the index reached"));
    }
}
