//! C18 — trace and call stack describe the executed control flow; rendering is total.

use crate::common::{Run, Tier};
use crate::emu::{guarded, StepOut};
use crate::enumrun::*;
use ax_x86::axecutor::Axecutor;
use ax_x86::state::registers::SupportedRegister as SR;
use ax_x86::verif::{TraceKind, TraceView};
use iced_x86::{FlowControl, OpKind};
use serde_json::json;

#[derive(Clone, Copy, Debug, PartialEq, Eq)]
enum Item {
    JmpNext,
    Loop,
    JeTaken,
    JeUntaken,
    CallNext,
    Ret,
    PushRet,
    CallRax,
    JmpRax,
    Int3,
    CallOverRet,
    /// the same `jmp rax` taken twice in a row with two different targets (no other traced
    /// event in between): must be two entries, not one entry with count 2
    IndirectTwice,
    /// direct self-recursion with nothing traced between two executions of the same `call f`:
    /// every call is its own entry and raises the level (only jumps are run-length collapsed)
    Recurse,
    /// the same `ret` executed twice in a row with the same target
    RetSelfTwice,
    /// `jmp [rip+0]` through an 8-byte slot that follows it (the target is what the slot HOLDS)
    JmpMem,
    /// `call [rip+2]; jmp +8; slot`: the callee is the code behind the slot, its `ret` comes back
    /// to the `jmp` that hops over the slot
    CallMem,
}
const ITEMS: [Item; 16] = [
    Item::JmpNext,
    Item::Loop,
    Item::JeTaken,
    Item::JeUntaken,
    Item::CallNext,
    Item::Ret,
    Item::PushRet,
    Item::CallRax,
    Item::JmpRax,
    Item::Int3,
    Item::CallOverRet,
    Item::IndirectTwice,
    Item::Recurse,
    Item::RetSelfTwice,
    Item::JmpMem,
    Item::CallMem,
];

const BASE: u64 = 0x40_1000;

fn item_len(i: Item) -> usize {
    match i {
        Item::JmpNext => 2,
        Item::Loop => 5,
        Item::JeTaken => 6,
        Item::JeUntaken => 5,
        Item::CallNext => 5,
        Item::Ret | Item::Int3 => 1,
        Item::PushRet => 6,
        Item::CallRax | Item::JmpRax => 10,
        Item::CallOverRet => 8,
        Item::IndirectTwice => 20,
        Item::Recurse => 18,
        Item::RetSelfTwice => 11,
        Item::JmpMem => 14,
        Item::CallMem => 16,
    }
}

fn assemble(p: &[Item]) -> Vec<u8> {
    let mut out: Vec<u8> = vec![];
    for it in p {
        let pos = out.len() as u64;
        let next = BASE + pos + item_len(*it) as u64;
        match it {
            Item::JmpNext => out.extend_from_slice(&[0xEB, 0x00]),
            Item::Loop => out.extend_from_slice(&[0x48, 0xFF, 0xC9, 0x75, 0xFB]), // dec rcx; jne -5
            // targets that are NOT the fall-through address: a source address derived from the
            // target (or the other way round) must not come out right by coincidence
            Item::JeTaken => out.extend_from_slice(&[0x48, 0x39, 0xC0, 0x74, 0x01, 0x90]), // cmp rax,rax; je +1; (nop)
            Item::JeUntaken => out.extend_from_slice(&[0x48, 0x85, 0xE4, 0x74, 0x00]), // test rsp,rsp; je +0
            Item::CallNext => out.extend_from_slice(&[0xE8, 0, 0, 0, 0]),
            Item::Ret => out.push(0xC3),
            Item::PushRet => {
                out.push(0x68);
                out.extend_from_slice(&(next as u32).to_le_bytes());
                out.push(0xC3);
            }
            Item::CallRax => {
                out.extend_from_slice(&[0x48, 0xC7, 0xC0]);
                out.extend_from_slice(&(next as u32).to_le_bytes());
                out.extend_from_slice(&[0xFF, 0xD0, 0x90]); // call rax; (nop, skipped)
            }
            Item::JmpRax => {
                out.extend_from_slice(&[0x48, 0xC7, 0xC0]);
                out.extend_from_slice(&(next as u32).to_le_bytes());
                out.extend_from_slice(&[0xFF, 0xE0, 0x90]); // jmp rax; (nop, skipped)
            }
            Item::Int3 => out.push(0xCC),
            Item::JmpMem => {
                out.extend_from_slice(&[0xFF, 0x25, 0, 0, 0, 0]); // jmp [rip+0]
                out.extend_from_slice(&next.to_le_bytes());
            }
            Item::CallMem => {
                out.extend_from_slice(&[0xFF, 0x15, 0x02, 0, 0, 0, 0xEB, 0x08]); // call [rip+2]; jmp +8
                out.extend_from_slice(&next.to_le_bytes());
            }
            // call +2 ; jmp +1 ; ret   (a real call/return pair: call the ret, come back, skip it)
            Item::CallOverRet => out.extend_from_slice(&[0xE8, 0x02, 0, 0, 0, 0xEB, 0x01, 0xC3]),
            Item::IndirectTwice => {
                let b = BASE + pos;
                out.extend_from_slice(&[0xEB, 0x09]); // jmp S
                out.extend_from_slice(&[0x48, 0xC7, 0xC0]); // T1: mov rax, T2
                out.extend_from_slice(&((b + 20) as u32).to_le_bytes());
                out.extend_from_slice(&[0xFF, 0xE0]); // J: jmp rax
                out.extend_from_slice(&[0x48, 0xC7, 0xC0]); // S: mov rax, T1
                out.extend_from_slice(&((b + 2) as u32).to_le_bytes());
                out.extend_from_slice(&[0xEB, 0xF5]); // jmp J
            }
            Item::Recurse => {
                out.extend_from_slice(&[0xE8, 0x02, 0, 0, 0]); // call f
                out.extend_from_slice(&[0xEB, 0x0B]); // jmp end
                out.extend_from_slice(&[0x48, 0xFF, 0xC9]); // f: dec rcx
                out.extend_from_slice(&[0x74, 0x05]); // jz done
                out.extend_from_slice(&[0xE8, 0xF6, 0xFF, 0xFF, 0xFF]); // call f
                out.push(0xC3); // done: ret
            }
            Item::RetSelfTwice => {
                let r = (BASE + pos + 10) as u32;
                out.push(0x68);
                out.extend_from_slice(&r.to_le_bytes());
                out.push(0x68);
                out.extend_from_slice(&r.to_le_bytes());
                out.push(0xC3); // R: ret (to R, then to R again, then to whatever lies below)
            }
        }
    }
    out
}

fn kind_name(k: TraceKind) -> &'static str {
    match k {
        TraceKind::Call => "call",
        TraceKind::Return => "return",
        TraceKind::Jump => "jump",
    }
}

fn render_all(ax: &mut Axecutor, viol: &mut Vec<(String, String)>, ctx: &str, depth_class: &str) {
    let mut v = |k: String, w: String| {
        if !viol.iter().any(|(kk, _)| *kk == k) {
            viol.push((k, w));
        }
    };
    match guarded(|| ax.trace().map(|s| s.len()).map_err(|e| e.to_string())) {
        Err(p) => v(format!("render-trace|panic@{}|{depth_class}", p.tag()), format!("{ctx}: trace() panicked: {}", crate::emu::first_line(&p.msg))),
        Ok(Err(e)) => v(format!("render-trace|failed|{depth_class}"), format!("{ctx}: trace() failed: {}", crate::emu::first_line(&e))),
        Ok(Ok(_)) => {}
    }
    match guarded(|| ax.call_stack().map(|s| s.len()).map_err(|e| e.to_string())) {
        Err(p) => v(format!("render-call_stack|panic@{}|{depth_class}", p.tag()), format!("{ctx}: call_stack() panicked: {}", crate::emu::first_line(&p.msg))),
        Ok(Err(e)) => v(format!("render-call_stack|failed|{depth_class}"), format!("{ctx}: call_stack() failed: {}", crate::emu::first_line(&e))),
        Ok(Ok(_)) => {}
    }
    if let Err(p) = guarded(|| ax.to_string().len()) {
        v(format!("render-to_string|panic@{}|{depth_class}", p.tag()), format!("{ctx}: to_string() panicked: {}", crate::emu::first_line(&p.msg)));
    }
}

fn run_program(prog: &[Item], code: &[u8], tiny_stack: bool) -> (Vec<(String, String)>, u64, u64) {
    let mut viol: Vec<(String, String)> = vec![];
    let ctx = format!("program {:?}{}", prog, if tiny_stack { " on a 16-byte stack" } else { "" });
    let mut padded = code.to_vec();
    padded.push(0x90); // the run ends by reaching the end of the code after this nop
    let mut ax = Axecutor::new(&padded, BASE, BASE).unwrap();
    for k in 0..16 {
        ax.reg_write_64(crate::emu::GPR64[k], crate::emu::filler_gpr(k)).unwrap();
    }
    ax.reg_write_64(SR::RCX, 3).unwrap();
    // the tiny stack holds one return address: the second nested call (and every push after
    // it) faults, which is how a run "ends in an error" in the middle of a transfer
    ax.init_stack(if tiny_stack { 16 } else { 0x1000 }).unwrap();
    ax.set_max_instructions(60);
    // a RET finishes the run only when it finds the stack as init_stack left it
    let rsp0 = ax.reg_read_64(SR::RSP).unwrap();
    // model
    let mut mtrace: Vec<TraceView> = ax.verif_trace_entries();
    let mut mstack: Vec<u64> = ax.verif_call_stack_raw();
    let mut depth: i64 = mstack.len() as i64; // calls minus returns (can go negative)
    let mut transitions = 0u64;
    let mut hash = crate::common::Fp::new();
    let end = BASE + padded.len() as u64;
    for _ in 0..64 {
        let rip = crate::emu::rip(&ax);
        let d = if rip >= BASE && rip < end { crate::tmpl::decode_at(&padded[(rip - BASE) as usize..], rip) } else { None };
        let flags = ax.verif_rflags();
        let rax = ax.reg_read_64(SR::RAX).unwrap();
        let rsp_before = ax.reg_read_64(SR::RSP).unwrap();
        let out = crate::emu::step(&mut ax);
        transitions += 1;
        let depth_class = if depth < 0 { "returns-outnumber-calls" } else { "balanced" };
        match &out {
            StepOut::Panic(p) => {
                viol.push((format!("step|panic@{}|{depth_class}", p.tag()), format!("{ctx}: step at {rip:#x} panicked: {}", crate::emu::first_line(&p.msg))));
                break;
            }
            StepOut::Err(_) => {
                // the decorated error was rendered inside step(); render again explicitly
                render_all(&mut ax, &mut viol, &ctx, depth_class);
                // a transfer that failed was not taken: it leaves no entry and no frame
                let kname = d.as_ref().map(|d| match d.instr.flow_control() {
                    FlowControl::Call | FlowControl::IndirectCall => "call",
                    FlowControl::Return => "return",
                    FlowControl::Next => "none",
                    _ => "jump",
                }).unwrap_or("none");
                let itrace = ax.verif_trace_entries();
                if itrace.len() != mtrace.len() || itrace.iter().zip(mtrace.iter()).any(|(a, b)| a.instr_ip != b.instr_ip || a.target != b.target || a.kind != b.kind || a.count != b.count) {
                    viol.push((format!("trace|entry-for-failed-instruction|{kname}"), format!("{ctx}: the step at {rip:#x} failed, yet the trace changed: {} entries before, {} after", mtrace.len(), itrace.len())));
                }
                if ax.verif_call_stack_raw() != mstack {
                    viol.push((format!("call-stack|changed-by-failed-instruction|{kname}"), format!("{ctx}: the step at {rip:#x} failed, yet the call stack changed: {:x?} -> {:x?}", mstack, ax.verif_call_stack_raw())));
                }
                break;
            }
            StepOut::Ok(_) => {}
        }
        let i = match d {
            Some(d) => d.instr,
            None => break,
        };
        let now = crate::emu::rip(&ax);
        // expected new entry
        let mut expect: Option<(TraceKind, u64)> = None;
        let mut top_level_finish = false;
        match i.flow_control() {
            FlowControl::UnconditionalBranch => expect = Some((TraceKind::Jump, i.near_branch_target())),
            FlowControl::ConditionalBranch => {
                let taken = crate::natdiff::eval_cc(i.condition_code(), flags).unwrap_or(false);
                if taken {
                    expect = Some((TraceKind::Jump, i.near_branch_target()));
                }
            }
            FlowControl::Call => expect = Some((TraceKind::Call, i.near_branch_target())),
            FlowControl::IndirectCall | FlowControl::IndirectBranch => {
                let kind = if i.flow_control() == FlowControl::IndirectCall { TraceKind::Call } else { TraceKind::Jump };
                if i.op0_kind() == OpKind::Register {
                    expect = Some((kind, rax));
                } else if i.op0_kind() == OpKind::Memory && i.memory_base() == iced_x86::Register::RIP {
                    // the pointer slot lies in the program itself
                    let slot = i.memory_displacement64();
                    if slot >= BASE && slot + 8 <= end {
                        let o = (slot - BASE) as usize;
                        expect = Some((kind, u64::from_le_bytes(padded[o..o + 8].try_into().unwrap())));
                    }
                }
            }
            FlowControl::Return => {
                if ax.verif_finished() && now == i.next_ip() && rsp_before == rsp0 {
                    top_level_finish = true; // entry neither required nor forbidden
                } else {
                    expect = Some((TraceKind::Return, now));
                }
            }
            _ => {}
        }
        let itrace = ax.verif_trace_entries();
        if top_level_finish {
            // accept either; resynchronise
            mtrace = itrace.clone();
        } else if let Some((kind, target)) = expect {
            // run-length collapse of an identical consecutive jump
            let collapsed = match mtrace.last_mut() {
                Some(l) if kind == TraceKind::Jump && l.kind == TraceKind::Jump && l.instr_ip == rip && l.target == target => {
                    l.count += 1;
                    true
                }
                _ => false,
            };
            if !collapsed {
                let lvl = match mtrace.last() {
                    Some(l) => l.level + match l.kind { TraceKind::Call => 1, TraceKind::Return => -1, TraceKind::Jump => 0 },
                    None => 0,
                };
                mtrace.push(TraceView { instr_ip: rip, target, kind, level: lvl, count: 1 });
            }
            match kind {
                TraceKind::Call => {
                    mstack.push(target);
                    depth += 1;
                }
                TraceKind::Return => {
                    mstack.pop();
                    depth -= 1;
                }
                _ => {}
            }
        }
        // compare traces
        if !top_level_finish {
            let kname = expect.map(|(k, _)| kind_name(k)).unwrap_or("none");
            if itrace.len() != mtrace.len() {
                let clause = if itrace.len() < mtrace.len() { "missing-entry" } else if expect.is_none() && i.flow_control() == FlowControl::ConditionalBranch { "untaken-branch-recorded" } else { "extra-entry" };
                viol.push((format!("trace|{clause}|{kname}"), format!("{ctx}: after `{i}` at {rip:#x} the trace has {} entries, the independent tracer {}", itrace.len(), mtrace.len())));
                break;
            }
            let mut bad = false;
            for (a, b) in itrace.iter().zip(mtrace.iter()) {
                // depth follows calls and returns literally: +1 after a call, -1 after a return, also
                // below the depth the run started at (returns that outnumber calls)
                let lvl_ok = a.level == b.level;
                if a.instr_ip != b.instr_ip || a.target != b.target || a.kind != b.kind {
                    viol.push((format!("trace|wrong-entry|{kname}"), format!("{ctx}: after `{i}` at {rip:#x}: trace entry {a:?}, independent tracer {b:?}")));
                    bad = true;
                    break;
                }
                if a.count != b.count {
                    viol.push((format!("trace|wrong-repeat-count|{kname}"), format!("{ctx}: after `{i}` at {rip:#x}: trace entry {a:?}, independent tracer {b:?}")));
                    bad = true;
                    break;
                }
                if !lvl_ok {
                    viol.push((format!("trace|wrong-level|{kname}"), format!("{ctx}: after `{i}` at {rip:#x}: trace entry {a:?}, independent tracer {b:?}")));
                    bad = true;
                    break;
                }
            }
            if bad {
                break;
            }
            if ax.verif_call_stack_raw() != mstack {
                viol.push((format!("call-stack|differs|{kname}"), format!("{ctx}: after `{i}` at {rip:#x}: call stack {:x?}, calls not yet returned from {:x?}", ax.verif_call_stack_raw(), mstack)));
                break;
            }
        } else {
            mstack = ax.verif_call_stack_raw();
        }
        let depth_class = if depth < 0 { "returns-outnumber-calls" } else { "balanced" };
        render_all(&mut ax, &mut viol, &ctx, depth_class);
        for t in &itrace {
            hash.u64(t.instr_ip);
            hash.u64(t.target);
            hash.u64(t.count);
        }
        if matches!(out, StepOut::Ok(false)) {
            break;
        }
    }
    (viol, transitions, hash.0)
}

/// Every conditional-jump form on its own: 16 conditions x {rel8, rel32} + JRCXZ + JECXZ, under
/// all 64 status-flag states x 3 RCX values. A taken branch adds exactly one entry (source,
/// target, kind, count 1); an untaken one adds nothing.
fn jcc_sweep(e: &mut EnumCtx) {
    let mut forms: Vec<Vec<u8>> = vec![];
    for cc in 0..16u8 {
        forms.push(vec![0x70 + cc, 0x04]);
        forms.push(vec![0x0F, 0x80 + cc, 0x04, 0, 0, 0]);
    }
    forms.push(vec![0xE3, 0x04]);
    forms.push(vec![0x67, 0xE3, 0x04]);
    let bits = [0x1u64, 0x4, 0x10, 0x40, 0x80, 0x800];
    for form in &forms {
        for fl in 0..64u64 {
            for rcx in [0u64, 1, 1 << 32] {
                if !e.next() {
                    continue;
                }
                let mut code = form.clone();
                code.extend_from_slice(&[0x90; 12]);
                let flags: u64 = (0..6).filter(|b| fl & (1 << b) != 0).map(|b| bits[b]).sum();
                e.describe("trace", &format!("conditional form {} flags {flags:#x} rcx {rcx:#x}", crate::common::hex(form)));
                let mut ax = Axecutor::new(&code, BASE, BASE).unwrap();
                for k in 0..16 {
                    ax.reg_write_64(crate::emu::GPR64[k], crate::emu::filler_gpr(k)).unwrap();
                }
                ax.reg_write_64(SR::RCX, rcx).unwrap();
                ax.init_stack(0x100).unwrap();
                ax.verif_set_rflags(flags);
                let d = match crate::tmpl::decode_at(&code, BASE) {
                    Some(d) => d,
                    None => continue,
                };
                let i = d.instr;
                let taken = match i.mnemonic() {
                    iced_x86::Mnemonic::Jrcxz => rcx == 0,
                    iced_x86::Mnemonic::Jecxz => rcx & 0xFFFF_FFFF == 0,
                    _ => crate::natdiff::eval_cc(i.condition_code(), flags).unwrap_or(false),
                };
                let before = ax.verif_trace_entries();
                let stack_before = ax.verif_call_stack_raw();
                let out = crate::emu::step(&mut ax);
                e.count("transitions", 1);
                e.count("conditional_form_cases", 1);
                let after = ax.verif_trace_entries();
                let mut f = crate::common::Fp::new();
                f.bytes(form);
                f.u64(flags);
                f.u64(rcx);
                e.state(f.0);
                f.u64(after.len() as u64);
                e.outcome(f.0);
                let ctx = format!("`{i}` with flags {flags:#x}, rcx {rcx:#x}");
                let w = || json!({"program": format!("single conditional jump {}", crate::common::hex(form)), "bytes": crate::common::hex(&code), "flags": flags, "rcx": rcx});
                match out {
                    StepOut::Ok(_) => {}
                    StepOut::Err(er) => {
                        e.finding("step|failed|conditional-jump", || format!("{ctx}: step failed: {}", crate::emu::first_line(&er)), w);
                        continue;
                    }
                    StepOut::Panic(p) => {
                        e.finding(&format!("step|panic@{}|balanced", p.tag()), || format!("{ctx}: step panicked"), w);
                        continue;
                    }
                }
                if !taken {
                    if after.len() != before.len() {
                        e.finding("trace|untaken-branch-recorded|jump", || format!("{ctx}: the branch is not taken, yet the trace grew from {} to {} entries", before.len(), after.len()), w);
                    }
                } else if after.len() != before.len() + 1 {
                    e.finding("trace|missing-entry|jump", || format!("{ctx}: the branch is taken, the trace has {} entries (had {})", after.len(), before.len()), w);
                } else {
                    let t = &after[after.len() - 1];
                    if t.kind != TraceKind::Jump || t.instr_ip != BASE || t.target != i.near_branch_target() || t.count != 1 {
                        e.finding("trace|wrong-entry|jump", || format!("{ctx}: taken to {:#x}, recorded {t:?}", i.near_branch_target()), w);
                    }
                }
                if ax.verif_call_stack_raw() != stack_before {
                    e.finding("call-stack|differs|jump", || format!("{ctx}: a conditional jump changed the call stack"), w);
                }
            }
        }
    }
}

fn gen(maxlen: usize) -> impl Fn(&mut EnumCtx) + Sync {
    move |e: &mut EnumCtx| {
        jcc_sweep(e);
        for len in 1..=maxlen {
            let total = ITEMS.len().pow(len as u32);
            for idx in 0..total {
                if !e.next() {
                    continue;
                }
                let mut prog = vec![];
                let mut rem = idx;
                for _ in 0..len {
                    prog.push(ITEMS[rem % ITEMS.len()]);
                    rem /= ITEMS.len();
                }
                let code = assemble(&prog);
                e.describe("trace", &format!("{:?}", prog));
                let (mut viol, mut t, mut h) = run_program(&prog, &code, false);
                if len < maxlen {
                    let (v2, t2, h2) = run_program(&prog, &code, true);
                    viol.extend(v2);
                    t += t2;
                    h ^= h2.rotate_left(17);
                }
                e.count("transitions", t);
                e.outcome(h);
                e.state(crate::common::fnv64(&code));
                e.sample(|| json!({"program": format!("{:?}", prog), "bytes": crate::common::hex(&code)}));
                let mut seen = std::collections::BTreeSet::new();
                for (k, w) in viol {
                    if seen.insert(k.clone()) {
                        e.finding(&k, || w.clone(), || json!({"program": format!("{:?}", prog), "bytes": crate::common::hex(&code)}));
                    }
                }
            }
        }
    }
}

pub fn run(tier: Tier) -> i32 {
    let mut run = Run::new("C18", tier.clone());
    let maxlen = if tier.is_thorough() { 6 } else { 5 };
    let o = EnumOpts {
        sup: crate::sup::SupOpts {
            hang_secs: 20,
            alloc_limit: 1 << 30,
            rlimit_as: 8 << 30,
            ..Default::default()
        },
        wall_cap_secs: if tier.is_thorough() { 1500 } else { 45 },
        crash_subject: "render".into(),
    };
    let g = gen(maxlen);
    if let Some(art) = crate::common::replay_artefact() {
        return crate::common::finish_replay("C18", &art, &|ws| confirm_enum(&o, &g, ws));
    }
    let out = run_enum(&o, &g);
    if tier.is_thorough() && crate::common::embedded_fd().is_none() {
        // the same enumeration (quick alphabets) in the dev-like build: debug assertions live,
        // debug_log! arguments evaluated
        let (f, summary) = crate::common::run_embedded("devlike", "C18");
        run.findings.merge(f);
        run.cov("devlike_profile_run", summary);
    }
    enum_evidence(&mut run, &out, "one case = (a) one of the 34 conditional-jump forms (16 conditions x rel8/rel32, JRCXZ, JECXZ) under one of 64 flag states and 3 RCX values, or (b) a program of <= L items over {jmp next, dec/jne countdown loop, je taken, je untaken, call next, ret, push addr+ret (unmatched return), mov+call rax, mov+jmp rax, int3, call/ret pair, one indirect jump taken twice with two targets, `jmp [rip+0]` and `call [rip+2]` through a slot in the code, direct self-recursion, one ret executed twice with the same target}; every program also on a 16-byte stack when shorter than L (nested calls and pushes then fault: a failed transfer must leave no trace entry and no frame); after every step the structured trace and call stack are compared with an independent tracer (iced decode, condition evaluated on the flags, targets from its own operand evaluation, run-length collapse), and trace()/call_stack()/to_string() are rendered under catch_unwind and an allocation guard; states = distinct programs; distinct_nontrivial = distinct trace histories");
    run.cov("program_max_length", json!(maxlen));
    run.guard("cases", out.cases >= 10_000 || out.capped, format!("{} programs", out.cases));
    run.guard("traces-distinct", out.distinct > 100, format!("{} distinct trace histories", out.distinct));
    run.assume("nesting depth is read literally (+1 after a call, -1 after a return, also when returns outnumber calls); a trace entry for the finishing top-level RET is neither required nor forbidden");
    let code = run.finish_batch(&|ws| confirm_enum(&o, &g, ws));
    code
}
