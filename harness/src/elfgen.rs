//! Parametric ELF64 writer and field map (C10, C15, C16).

#[derive(Clone, Debug)]
pub struct Seg {
    pub p_type: u32,
    pub flags: u32,
    pub vaddr: u64,
    pub file: Vec<u8>,
    pub memsz: u64,
    pub align: u64,
}

#[derive(Clone, Debug)]
pub struct Sym {
    /// None: st_name = 0 (empty name)
    pub name: Option<String>,
    pub value: u64,
    /// 0 = undefined
    pub shndx: u16,
    pub info: u8,
}

#[derive(Clone, Debug)]
pub struct ElfSpec {
    pub e_type: u16,
    pub entry: u64,
    pub segs: Vec<Seg>,
    pub syms: Option<Vec<Sym>>,
}

pub const PT_NULL: u32 = 0;
pub const PT_LOAD: u32 = 1;
pub const PT_DYNAMIC: u32 = 2;
pub const PT_INTERP: u32 = 3;
pub const PT_NOTE: u32 = 4;
pub const PT_SHLIB: u32 = 5;
pub const PT_PHDR: u32 = 6;
pub const PT_TLS: u32 = 7;
pub const PT_GNU_EH_FRAME: u32 = 0x6474e550;
pub const PT_GNU_STACK: u32 = 0x6474e551;
pub const PT_GNU_RELRO: u32 = 0x6474e552;
pub const PT_GNU_PROPERTY: u32 = 0x6474e553;

#[derive(Clone, Debug)]
pub struct Field {
    pub name: String,
    pub off: usize,
    pub size: usize,
}

fn put(v: &mut Vec<u8>, off: usize, size: usize, val: u64) {
    for k in 0..size {
        v[off + k] = (val >> (8 * k)) as u8;
    }
}

pub fn get(v: &[u8], off: usize, size: usize) -> u64 {
    let mut x = 0u64;
    for k in 0..size {
        if off + k < v.len() {
            x |= (v[off + k] as u64) << (8 * k);
        }
    }
    x
}

/// Writes the file; returns the bytes and, for every PT_LOAD, nothing else is needed because the
/// spec itself is the expected image.
thread_local! {
    /// p_paddr of every program header: the virtual address (what GNU ld writes) or 0 (what the
    /// System V ABI allows for user-space images: the field is unspecified)
    pub static PADDR_ZERO: std::cell::Cell<bool> = std::cell::Cell::new(false);
}

pub fn write(spec: &ElfSpec) -> Vec<u8> {
    let n = spec.segs.len();
    let phoff = 64usize;
    let mut out = vec![0u8; phoff + 56 * n];
    // contents
    let mut offsets = vec![0u64; n];
    for (k, s) in spec.segs.iter().enumerate() {
        if s.file.is_empty() && s.p_type != PT_LOAD {
            offsets[k] = 0;
            continue;
        }
        // p_offset congruent to p_vaddr modulo the page size, as linkers emit
        let mut off = out.len() as u64;
        let want = s.vaddr & 0xFFF;
        if off & 0xFFF != want {
            off = (off & !0xFFF) + want + if (off & 0xFFF) > want { 0x1000 } else { 0 };
        }
        if s.p_type == PT_PHDR {
            offsets[k] = phoff as u64;
            continue;
        }
        // bytes of the file that belong to no segment are arbitrary: make them non-zero, so a
        // loader that fills a bss tail from the file instead of zeros is seen
        out.resize(off as usize, 0xEE);
        out.extend_from_slice(&s.file);
        offsets[k] = off;
    }
    out.extend_from_slice(&[0xEE; 0x40]);
    // symbol table + string tables + section headers
    let mut shoff = 0usize;
    let mut shnum = 0usize;
    let mut shstrndx = 0usize;
    if let Some(syms) = &spec.syms {
        while out.len() % 8 != 0 {
            out.push(0);
        }
        let mut strtab: Vec<u8> = vec![0];
        let mut symtab: Vec<u8> = vec![0u8; 24]; // null symbol
        for s in syms {
            let name_off = match &s.name {
                Some(n) => {
                    let o = strtab.len();
                    strtab.extend_from_slice(n.as_bytes());
                    strtab.push(0);
                    o
                }
                None => 0,
            };
            let mut e = vec![0u8; 24];
            put(&mut e, 0, 4, name_off as u64);
            e[4] = s.info;
            put(&mut e, 6, 2, s.shndx as u64);
            put(&mut e, 8, 8, s.value);
            symtab.extend_from_slice(&e);
        }
        let symtab_off = out.len();
        out.extend_from_slice(&symtab);
        let strtab_off = out.len();
        out.extend_from_slice(&strtab);
        let shstr: &[u8] = b"\0.symtab\0.strtab\0.shstrtab\0.text\0";
        let shstr_off = out.len();
        out.extend_from_slice(shstr);
        while out.len() % 8 != 0 {
            out.push(0);
        }
        shoff = out.len();
        shnum = 5;
        shstrndx = 3;
        let mut sh = vec![0u8; 64 * shnum];
        // [1] .symtab
        put(&mut sh, 64, 4, 1);
        put(&mut sh, 64 + 4, 4, 2); // SHT_SYMTAB
        put(&mut sh, 64 + 24, 8, symtab_off as u64);
        put(&mut sh, 64 + 32, 8, symtab.len() as u64);
        put(&mut sh, 64 + 40, 4, 2); // link -> .strtab
        put(&mut sh, 64 + 44, 4, 1);
        put(&mut sh, 64 + 48, 8, 8);
        put(&mut sh, 64 + 56, 8, 24);
        // [2] .strtab
        put(&mut sh, 128, 4, 9);
        put(&mut sh, 128 + 4, 4, 3); // SHT_STRTAB
        put(&mut sh, 128 + 24, 8, strtab_off as u64);
        put(&mut sh, 128 + 32, 8, strtab.len() as u64);
        put(&mut sh, 128 + 48, 8, 1);
        // [3] .shstrtab
        put(&mut sh, 192, 4, 17);
        put(&mut sh, 192 + 4, 4, 3);
        put(&mut sh, 192 + 24, 8, shstr_off as u64);
        put(&mut sh, 192 + 32, 8, shstr.len() as u64);
        put(&mut sh, 192 + 48, 8, 1);
        // [4] .text (so defined symbols can point at a section)
        put(&mut sh, 256, 4, 27);
        put(&mut sh, 256 + 4, 4, 1); // SHT_PROGBITS
        put(&mut sh, 256 + 8, 8, 6); // ALLOC|EXEC
        if let Some((k, s)) = spec.segs.iter().enumerate().find(|(_, s)| s.p_type == PT_LOAD) {
            put(&mut sh, 256 + 16, 8, s.vaddr);
            put(&mut sh, 256 + 24, 8, offsets[k]);
            put(&mut sh, 256 + 32, 8, s.file.len() as u64);
        }
        put(&mut sh, 256 + 48, 8, 16);
        out.extend_from_slice(&sh);
    }
    // header
    out[0..4].copy_from_slice(&[0x7f, b'E', b'L', b'F']);
    out[4] = 2; // ELFCLASS64
    out[5] = 1; // little endian
    out[6] = 1;
    put(&mut out, 16, 2, spec.e_type as u64);
    put(&mut out, 18, 2, 62); // EM_X86_64
    put(&mut out, 20, 4, 1);
    put(&mut out, 24, 8, spec.entry);
    put(&mut out, 32, 8, phoff as u64);
    put(&mut out, 40, 8, shoff as u64);
    put(&mut out, 52, 2, 64);
    put(&mut out, 54, 2, 56);
    put(&mut out, 56, 2, n as u64);
    put(&mut out, 58, 2, 64);
    put(&mut out, 60, 2, shnum as u64);
    put(&mut out, 62, 2, shstrndx as u64);
    for (k, s) in spec.segs.iter().enumerate() {
        let o = phoff + 56 * k;
        put(&mut out, o, 4, s.p_type as u64);
        put(&mut out, o + 4, 4, s.flags as u64);
        put(&mut out, o + 8, 8, offsets[k]);
        put(&mut out, o + 16, 8, s.vaddr);
        put(&mut out, o + 24, 8, if PADDR_ZERO.with(|p| p.get()) { 0 } else { s.vaddr });
        let filesz = if s.p_type == PT_PHDR { (56 * n) as u64 } else { s.file.len() as u64 };
        put(&mut out, o + 32, 8, filesz);
        put(&mut out, o + 40, 8, if s.p_type == PT_PHDR { filesz } else { s.memsz });
        put(&mut out, o + 48, 8, s.align);
    }
    out
}

/// Every header / program-header / symtab-related section-header / first-two-symbol field of a
/// file (generated or bundled), located by reading the file's own header chain.
pub fn field_map(f: &[u8]) -> Vec<Field> {
    let mut v = vec![];
    let mut add = |name: String, off: usize, size: usize| {
        if off + size <= f.len() {
            v.push(Field { name, off, size });
        }
    };
    for (n, off, size) in [
        ("ei_class", 4usize, 1usize),
        ("ei_data", 5, 1),
        ("ei_version", 6, 1),
        ("ei_osabi", 7, 1),
        ("e_type", 16, 2),
        ("e_machine", 18, 2),
        ("e_version", 20, 4),
        ("e_entry", 24, 8),
        ("e_phoff", 32, 8),
        ("e_shoff", 40, 8),
        ("e_flags", 48, 4),
        ("e_ehsize", 52, 2),
        ("e_phentsize", 54, 2),
        ("e_phnum", 56, 2),
        ("e_shentsize", 58, 2),
        ("e_shnum", 60, 2),
        ("e_shstrndx", 62, 2),
    ] {
        add(n.to_string(), off, size);
    }
    let phoff = get(f, 32, 8) as usize;
    let phnum = get(f, 56, 2) as usize;
    for k in 0..phnum.min(16) {
        let o = phoff.saturating_add(56 * k);
        for (n, d, s) in [
            ("p_type", 0usize, 4usize),
            ("p_flags", 4, 4),
            ("p_offset", 8, 8),
            ("p_vaddr", 16, 8),
            ("p_paddr", 24, 8),
            ("p_filesz", 32, 8),
            ("p_memsz", 40, 8),
            ("p_align", 48, 8),
        ] {
            add(format!("ph{k}.{n}"), o + d, s);
        }
    }
    let shoff = get(f, 40, 8) as usize;
    let shnum = get(f, 60, 2) as usize;
    let mut symtab_off = 0usize;
    for k in 0..shnum.min(64) {
        let o = shoff.saturating_add(64 * k);
        if o + 64 > f.len() {
            break;
        }
        let ty = get(f, o + 4, 4);
        if ty == 2 || ty == 3 {
            let tag = if ty == 2 { "symtab" } else { "strtab" };
            for (n, d, s) in [
                ("sh_name", 0usize, 4usize),
                ("sh_type", 4, 4),
                ("sh_offset", 24, 8),
                ("sh_size", 32, 8),
                ("sh_link", 40, 4),
                ("sh_info", 44, 4),
                ("sh_entsize", 56, 8),
            ] {
                add(format!("sh{k}({tag}).{n}"), o + d, s);
            }
            if ty == 2 {
                symtab_off = get(f, o + 24, 8) as usize;
            }
        }
    }
    if symtab_off != 0 {
        for k in 1..3usize {
            let o = symtab_off + 24 * k;
            for (n, d, s) in [
                ("st_name", 0usize, 4usize),
                ("st_info", 4, 1),
                ("st_shndx", 6, 2),
                ("st_value", 8, 8),
                ("st_size", 16, 8),
            ] {
                add(format!("sym{k}.{n}"), o + d, s);
            }
        }
    }
    v
}

pub fn text_bytes(n: usize, salt: u8) -> Vec<u8> {
    (0..n).map(|i| (i as u8).wrapping_mul(13).wrapping_add(salt) | 1).collect()
}

pub fn simple_two_segment() -> Vec<u8> {
    let spec = ElfSpec {
        e_type: 2,
        entry: 0x401000,
        segs: vec![
            Seg { p_type: PT_LOAD, flags: 5, vaddr: 0x401000, file: {
                let mut t = vec![0x0F, 0x05]; // syscall at the entry point
                t.extend_from_slice(&[0x90; 30]);
                t
            }, memsz: 32, align: 0x1000 },
            Seg { p_type: PT_LOAD, flags: 6, vaddr: 0x403000, file: text_bytes(0x10, 7), memsz: 0x30, align: 0x1000 },
        ],
        syms: Some(vec![Sym { name: Some("_start".into()), value: 0x401000, shndx: 4, info: 0x12 }]),
    };
    write(&spec)
}
