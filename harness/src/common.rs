//! Findings table, known-findings file, evidence writer, verdict (DESIGN §3.6, A.4).

use serde_json::{json, Value};
use std::collections::BTreeMap;
use std::path::{Path, PathBuf};
use std::time::Instant;

pub const VERIF_ROOT: &str = "/verif";

#[derive(Clone, Debug, PartialEq, Eq)]
pub enum Tier {
    Quick,
    Thorough,
}

impl Tier {
    pub fn name(&self) -> &'static str {
        match self {
            Tier::Quick => "quick",
            Tier::Thorough => "thorough",
        }
    }
    pub fn is_thorough(&self) -> bool {
        *self == Tier::Thorough
    }
}

pub fn seed() -> u64 {
    std::env::var("VERIF_SEED")
        .ok()
        .and_then(|s| s.trim().parse::<i128>().ok())
        .map(|v| v as u64)
        .unwrap_or(0)
}

pub fn ncpu() -> usize {
    if let Ok(s) = std::env::var("VERIF_JOBS") {
        if let Ok(n) = s.parse::<usize>() {
            return n.max(1);
        }
    }
    let n = unsafe { libc::sysconf(libc::_SC_NPROCESSORS_ONLN) };
    if n < 1 {
        1
    } else {
        n as usize
    }
}

/// One class of disagreement between implementation and oracle.
#[derive(Clone, Debug)]
pub struct Finding {
    pub key: String,
    pub what: String,
    pub witness: Value,
    pub count: u64,
}

#[derive(Default, Clone, Debug)]
pub struct Findings {
    pub map: BTreeMap<String, Finding>,
}

impl Findings {
    pub fn new() -> Self {
        Self::default()
    }
    /// Record one occurrence; keeps the first witness seen for a key (enumerations are ordered
    /// simplest-first, so the first is also a shortest one).
    pub fn add(&mut self, key: &str, what: impl FnOnce() -> String, witness: impl FnOnce() -> Value) {
        if let Some(f) = self.map.get_mut(key) {
            f.count += 1;
        } else {
            self.map.insert(
                key.to_string(),
                Finding {
                    key: key.to_string(),
                    what: what(),
                    witness: witness(),
                    count: 1,
                },
            );
        }
    }
    pub fn merge(&mut self, other: Findings) {
        for (k, f) in other.map {
            self.merge_one(k, f);
        }
    }
    pub fn merge_one(&mut self, k: String, f: Finding) {
        match self.map.get_mut(&k) {
            Some(e) => {
                e.count += f.count;
                // deterministic choice of witness: the smaller serialisation wins
                let a = e.witness.to_string();
                let b = f.witness.to_string();
                if (b.len(), &b) < (a.len(), &a) {
                    e.witness = f.witness;
                    e.what = f.what;
                }
            }
            None => {
                self.map.insert(k, f);
            }
        }
    }
    pub fn to_json(&self) -> Value {
        Value::Array(
            self.map
                .values()
                .map(|f| json!({"key": f.key, "what": f.what, "witness": f.witness, "count": f.count}))
                .collect(),
        )
    }
    pub fn from_json(v: &Value) -> Findings {
        let mut out = Findings::new();
        if let Some(a) = v.as_array() {
            for e in a {
                let key = e["key"].as_str().unwrap_or("").to_string();
                out.map.insert(
                    key.clone(),
                    Finding {
                        key,
                        what: e["what"].as_str().unwrap_or("").to_string(),
                        witness: e["witness"].clone(),
                        count: e["count"].as_u64().unwrap_or(1),
                    },
                );
            }
        }
        out
    }
}

#[derive(Clone, Debug)]
pub struct KnownEntry {
    pub property: String,
    pub key: String,
    pub status: String,
    pub what: String,
}

pub fn load_known() -> Vec<KnownEntry> {
    let p = Path::new(VERIF_ROOT).join("known_findings.json");
    let txt = match std::fs::read_to_string(&p) {
        Ok(t) => t,
        Err(_) => return vec![],
    };
    let v: Value = match serde_json::from_str(&txt) {
        Ok(v) => v,
        Err(e) => machinery_error(&format!("known_findings.json does not parse: {e}")),
    };
    let mut out = vec![];
    if let Some(a) = v["findings"].as_array() {
        for e in a {
            out.push(KnownEntry {
                property: e["property"].as_str().unwrap_or("").to_string(),
                key: e["key"].as_str().unwrap_or("").to_string(),
                status: e["status"].as_str().unwrap_or("open").to_string(),
                what: e["what"].as_str().unwrap_or("").to_string(),
            });
        }
    }
    out
}

/// Exit 2: the machinery failed; never a verdict.
pub fn machinery_error(msg: &str) -> ! {
    eprintln!("MACHINERY-ERROR: {msg}");
    println!("MACHINERY-ERROR: {msg}");
    std::process::exit(2);
}

pub struct Run {
    pub prop: String,
    pub tier: Tier,
    pub started: Instant,
    pub findings: Findings,
    pub coverage: serde_json::Map<String, Value>,
    pub assumptions: Vec<String>,
    pub guards: Vec<(String, bool, String)>,
    pub level: String,
    /// C20 only: the subject's nondeterminism is what is being looked for, so a disagreement
    /// that does not come back in two confirmation runs (a rare draw) is dropped as unconfirmed
    /// instead of voiding the verdict - as long as some other disagreement does confirm
    pub rare_disagreements_tolerated: bool,
}

impl Run {
    pub fn new(prop: &str, tier: Tier) -> Run {
        Run {
            prop: prop.to_string(),
            tier,
            started: Instant::now(),
            findings: Findings::new(),
            coverage: serde_json::Map::new(),
            assumptions: vec![],
            guards: vec![],
            level: "model_checking".to_string(),
            rare_disagreements_tolerated: false,
        }
    }
    pub fn cov(&mut self, k: &str, v: Value) {
        self.coverage.insert(k.to_string(), v);
    }
    pub fn cov_add(&mut self, k: &str, n: u64) {
        let cur = self.coverage.get(k).and_then(|v| v.as_u64()).unwrap_or(0);
        self.coverage.insert(k.to_string(), json!(cur + n));
    }
    pub fn assume(&mut self, s: &str) {
        self.assumptions.push(s.to_string());
    }
    /// Vacuity guard: recorded in the evidence, failure is a machinery error (exit 2).
    pub fn guard(&mut self, name: &str, ok: bool, detail: String) {
        self.guards.push((name.to_string(), ok, detail));
    }

    fn replay_path(&self, key: &str) -> PathBuf {
        let mut h: u64 = 0xcbf29ce484222325;
        for b in key.bytes() {
            h ^= b as u64;
            h = h.wrapping_mul(0x100000001b3);
        }
        Path::new(VERIF_ROOT)
            .join("replays")
            .join(&self.prop)
            .join(format!("{h:016x}.json"))
    }

    /// Writes evidence, prints KNOWN-FINDING / VIOLATION lines, returns the exit code.
    /// `confirm` replays a witness on fresh machines and returns Ok(key) of what it observed.
    pub fn finish(self, confirm: &dyn Fn(&Value) -> Result<Vec<String>, String>) -> i32 {
        self.finish_batch(&|ws: &[Value]| ws.iter().map(|w| confirm(w)).collect())
    }

    /// `confirm` replays every witness on fresh machines and returns the keys each produces.
    pub fn finish_batch(
        mut self,
        confirm: &dyn Fn(&[Value]) -> Vec<Result<Vec<String>, String>>,
    ) -> i32 {
        if embedded_fd().is_some() {
            return self.finish_embedded(confirm);
        }
        // findings reported by an embedded run of another build profile were confirmed there
        let confirm_outer = confirm;
        let confirm = &|ws: &[Value]| -> Vec<Result<Vec<String>, String>> {
            let inner: Vec<Value> = ws.iter().filter(|w| w["engine"] != "embedded").cloned().collect();
            let mut res = if inner.is_empty() { vec![] } else { confirm_outer(&inner) }.into_iter();
            ws.iter()
                .map(|w| {
                    if w["engine"] == "embedded" {
                        Ok(vec![w["key"].as_str().unwrap_or("").to_string()])
                    } else {
                        res.next().unwrap_or_else(|| Err("missing replay result".into()))
                    }
                })
                .collect()
        };
        let known = load_known();
        let open: BTreeMap<String, &KnownEntry> = known
            .iter()
            .filter(|k| k.property == self.prop && k.status == "open")
            .map(|k| (k.key.clone(), k))
            .collect();
        let mut known_seen = vec![];
        let mut violations = vec![];
        for (k, f) in &self.findings.map {
            if let Some(e) = open.get(k) {
                known_seen.push(k.clone());
                println!(
                    "KNOWN-FINDING: property={} {} {} [x{}]",
                    self.prop,
                    k,
                    if e.what.is_empty() { &f.what } else { &e.what },
                    f.count
                );
            } else {
                violations.push(f.clone());
            }
        }
        let mut irreproducible = vec![];
        let mut viol_lines = vec![];
        // replay twice on fresh machines: identical observations, still violating
        let ws: Vec<Value> = violations.iter().map(|f| f.witness.clone()).collect();
        let first = if ws.is_empty() { vec![] } else { confirm(&ws) };
        let second = if ws.is_empty() { vec![] } else { confirm(&ws) };
        if first.len() != ws.len() || second.len() != ws.len() {
            machinery_error("replay batch returned the wrong number of results");
        }
        for (n, f) in violations.iter().enumerate() {
            let a = first[n].clone();
            let b = second[n].clone();
            let ok = match (&a, &b) {
                (Ok(x), Ok(y)) => x == y && x.iter().any(|k| k == &f.key),
                _ => false,
            };
            if !ok {
                let mut wj = f.witness.to_string();
                wj.truncate(600);
                irreproducible.push(format!("{}: first={:?} second={:?} witness={}", f.key, a, b, wj));
                continue;
            }
            let p = self.replay_path(&f.key);
            let _ = std::fs::create_dir_all(p.parent().unwrap());
            let body = json!({"property": self.prop, "tier": self.tier.name(), "key": f.key, "what": f.what, "witness": f.witness, "count": f.count});
            let _ = std::fs::write(&p, serde_json::to_string_pretty(&body).unwrap());
            viol_lines.push(format!(
                "VIOLATION property={} replay={}",
                self.prop,
                p.display()
            ));
            println!("  key={} what={} [x{}]", f.key, f.what, f.count);
        }
        let guards_ok = self.guards.iter().all(|g| g.1);
        let wall = self.started.elapsed().as_secs_f64();
        let cov_guards: Vec<Value> = self
            .guards
            .iter()
            .map(|(n, ok, d)| json!({"guard": n, "ok": ok, "detail": d}))
            .collect();
        self.coverage.insert("vacuity_guards".into(), Value::Array(cov_guards));
        self.coverage
            .insert("known_finding_keys_seen".into(), json!(known_seen));
        self.coverage.insert(
            "violation_keys".into(),
            json!(violations.iter().map(|f| f.key.clone()).collect::<Vec<_>>()),
        );
        self.coverage.insert(
            "finding_classes_total".into(),
            json!(self.findings.map.len()),
        );
        // schema: model_checking wants states/transitions/traces_validated/samples; make sure the
        // generic keys exist too.
        for k in ["states", "transitions", "traces_validated_against_impl", "evaluations", "distinct_nontrivial"] {
            if !self.coverage.contains_key(k) {
                machinery_error(&format!("evidence key {k} was not measured by {}", self.prop));
            }
        }
        if !self.coverage.contains_key("samples") {
            machinery_error("evidence has no samples");
        }
        let ev = json!({
            "property_id": self.prop,
            "tier": self.tier.name(),
            "seed": seed() as i64,
            "level": self.level,
            "coverage": Value::Object(self.coverage.clone()),
            "assumptions": self.assumptions,
            "wall_s": wall,
            "violations": viol_lines.len(),
        });
        let evp = Path::new(VERIF_ROOT).join("evidence");
        let _ = std::fs::create_dir_all(&evp);
        let evf = evp.join(format!("{}.json", self.prop));
        if let Err(e) = std::fs::write(&evf, serde_json::to_string_pretty(&ev).unwrap()) {
            machinery_error(&format!("cannot write evidence {}: {e}", evf.display()));
        }
        if !irreproducible.is_empty() {
            // a finding that does not replay decides nothing; next to violations that DID replay
            // twice in isolation it is reported as unconfirmed and the confirmed ones stand
            if !viol_lines.is_empty() {
                for i in &irreproducible {
                    println!("UNCONFIRMED (seen once, not in two confirmation runs; not reported): {i}");
                }
            } else {
                for i in &irreproducible {
                    println!("IRREPRODUCIBLE: {i}");
                }
                machinery_error("a reported disagreement did not replay identically; no verdict");
            }
        }
        if !guards_ok {
            for (n, ok, d) in &self.guards {
                if !ok {
                    println!("VACUITY-GUARD-FAILED: {n}: {d}");
                }
            }
            // the guards protect the verdict "held" against a vacuous exploration; a violation
            // that replayed twice stands whatever else the (possibly crippled) run covered
            if viol_lines.is_empty() {
                machinery_error("vacuity guard failed; no verdict");
            }
        }
        for l in &viol_lines {
            println!("{l}");
        }
        println!(
            "SUMMARY property={} tier={} wall_s={:.1} finding_classes={} known={} violations={}",
            self.prop,
            self.tier.name(),
            wall,
            self.findings.map.len(),
            known_seen.len(),
            viol_lines.len()
        );
        if viol_lines.is_empty() {
            0
        } else {
            1
        }
    }
}

impl Run {
    /// Embedded mode (another build profile run by the main check): every finding is confirmed
    /// by replay here and handed to the parent process as one JSON line; no verdict, no evidence.
    fn finish_embedded(self, confirm: &dyn Fn(&[Value]) -> Vec<Result<Vec<String>, String>>) -> i32 {
        let all: Vec<Finding> = self.findings.map.values().cloned().collect();
        let ws: Vec<Value> = all.iter().map(|f| f.witness.clone()).collect();
        let first = if ws.is_empty() { vec![] } else { confirm(&ws) };
        let second = if ws.is_empty() { vec![] } else { confirm(&ws) };
        let mut out = vec![];
        let mut irreproducible = vec![];
        for (n, f) in all.iter().enumerate() {
            let ok = match (first.get(n), second.get(n)) {
                (Some(Ok(x)), Some(Ok(y))) => x == y && x.iter().any(|k| k == &f.key),
                _ => false,
            };
            if ok {
                out.push(json!({"key": f.key, "what": f.what, "witness": f.witness, "count": f.count}));
            } else {
                irreproducible.push(f.key.clone());
            }
        }
        let guards_ok = self.guards.iter().all(|g| g.1);
        let v = json!({
            "findings": out,
            "irreproducible": irreproducible,
            "guards_ok": guards_ok,
            "evaluations": self.coverage.get("evaluations").cloned().unwrap_or(json!(0)),
            "transitions": self.coverage.get("transitions").cloned().unwrap_or(json!(0)),
            "exhaustive": self.coverage.get("exhaustive").cloned().unwrap_or(json!(false)),
            "wall_s": self.started.elapsed().as_secs_f64(),
        });
        let line = format!("EMBEDDED {}\n", v);
        let fd = embedded_fd().unwrap();
        unsafe { libc::write(fd, line.as_ptr() as *const libc::c_void, line.len()) };
        0
    }
}

/// Replay mode: `./check <ID> --replay <file>` loads the artefact written for a violation.
pub fn replay_artefact() -> Option<Value> {
    let p = std::env::var("AXMC_REPLAY").ok()?;
    let t = std::fs::read_to_string(&p).ok()?;
    serde_json::from_str(&t).ok()
}

/// Replays one artefact on fresh machines with the property's own confirmation function.
pub fn finish_replay(prop: &str, art: &Value, confirm: &dyn Fn(&[Value]) -> Vec<Result<Vec<String>, String>>) -> i32 {
    let key = art["key"].as_str().unwrap_or("").to_string();
    let w = art["witness"].clone();
    let path = std::env::var("AXMC_REPLAY").unwrap_or_default();
    match confirm(std::slice::from_ref(&w)).pop() {
        Some(Ok(keys)) => {
            println!("observed keys: {keys:?}");
            if keys.iter().any(|k| *k == key) {
                println!("recorded disagreement reproduced: {key}");
                println!("VIOLATION property={prop} replay={path}");
                1
            } else {
                println!("recorded key {key} did not reproduce");
                0
            }
        }
        Some(Err(e)) => machinery_error(&format!("replay failed: {e}")),
        None => machinery_error("replay returned nothing"),
    }
}

static EMBEDDED_FD: std::sync::atomic::AtomicI32 = std::sync::atomic::AtomicI32::new(-1);

pub fn embedded_fd() -> Option<i32> {
    let v = EMBEDDED_FD.load(std::sync::atomic::Ordering::SeqCst);
    if v >= 0 {
        Some(v)
    } else {
        None
    }
}

/// Called first thing in main(): in embedded mode the real stdout is kept on a spare descriptor
/// and stdout itself is discarded (a debug-assertions build prints every register access).
pub fn init_embedded() {
    if std::env::var("AXMC_EMBEDDED").is_ok() {
        unsafe {
            let keep = libc::dup(1);
            let dn = libc::open(b"/dev/null\0".as_ptr() as *const libc::c_char, libc::O_WRONLY);
            if keep >= 0 && dn >= 0 {
                libc::dup2(dn, 1);
                EMBEDDED_FD.store(keep, std::sync::atomic::Ordering::SeqCst);
            }
        }
    }
}

/// Runs the same property with the quick alphabets in the build of another profile and returns
/// its confirmed findings (keys prefixed with the profile) plus a summary for the evidence.
pub fn run_embedded(profile: &str, prop: &str) -> (Findings, Value) {
    let exe = Path::new(VERIF_ROOT).join(".build").join(profile).join("axmc");
    let mut f = Findings::new();
    if !exe.exists() {
        return (f, json!({"profile": profile, "ran": false, "reason": "binary not built (./check builds it for the thorough tier)"}));
    }
    let out = std::process::Command::new(&exe)
        .args(["run", prop, "--tier", "quick"])
        .env("AXMC_EMBEDDED", "1")
        .stderr(std::process::Stdio::null())
        .output();
    let out = match out {
        Ok(o) => o,
        Err(e) => machinery_error(&format!("cannot run {}: {e}", exe.display())),
    };
    let txt = String::from_utf8_lossy(&out.stdout);
    let line = txt.lines().find(|l| l.starts_with("EMBEDDED "));
    let v: Value = match line.and_then(|l| serde_json::from_str(&l[9..]).ok()) {
        Some(v) => v,
        None => machinery_error(&format!("{profile} run of {prop} produced no result (exit {:?})", out.status.code())),
    };
    if !v["guards_ok"].as_bool().unwrap_or(false) || v["irreproducible"].as_array().map(|a| !a.is_empty()).unwrap_or(true) {
        machinery_error(&format!("{profile} run of {prop}: vacuity guard failed or irreproducible findings: {}", v["irreproducible"]));
    }
    if let Some(a) = v["findings"].as_array() {
        for e in a {
            let key = format!("{profile}|{}", e["key"].as_str().unwrap_or(""));
            f.map.insert(
                key.clone(),
                Finding {
                    key: key.clone(),
                    what: format!("[{profile} build] {}", e["what"].as_str().unwrap_or("")),
                    witness: json!({"engine": "embedded", "key": key, "profile": profile, "inner": e["witness"].clone()}),
                    count: e["count"].as_u64().unwrap_or(1),
                },
            );
        }
    }
    let summary = json!({"profile": profile, "ran": true, "evaluations": v["evaluations"], "transitions": v["transitions"], "exhaustive": v["exhaustive"], "wall_s": v["wall_s"], "finding_classes": f.map.len()});
    (f, summary)
}

pub fn hex(b: &[u8]) -> String {
    b.iter().map(|x| format!("{x:02x}")).collect::<Vec<_>>().join(" ")
}

pub fn unhex(s: &str) -> Vec<u8> {
    s.split_whitespace()
        .map(|t| u8::from_str_radix(t, 16).expect("hex byte"))
        .collect()
}

pub fn fnv64(data: &[u8]) -> u64 {
    let mut h: u64 = 0xcbf29ce484222325;
    for b in data {
        h ^= *b as u64;
        h = h.wrapping_mul(0x100000001b3);
    }
    h
}

/// Stable, order-sensitive 64-bit mixer used for fingerprints.
#[derive(Clone, Copy)]
pub struct Fp(pub u64);
impl Fp {
    pub fn new() -> Fp {
        Fp(0x9e3779b97f4a7c15)
    }
    #[inline]
    pub fn u64(&mut self, v: u64) {
        let mut x = self.0 ^ v.wrapping_mul(0xff51afd7ed558ccd);
        x ^= x >> 32;
        x = x.wrapping_mul(0xc4ceb9fe1a85ec53);
        x ^= x >> 29;
        self.0 = x.wrapping_add(0x9e3779b97f4a7c15);
    }
    pub fn bytes(&mut self, b: &[u8]) {
        self.u64(b.len() as u64);
        let mut it = b.chunks_exact(8);
        for c in &mut it {
            self.u64(u64::from_le_bytes(c.try_into().unwrap()));
        }
        let r = it.remainder();
        if !r.is_empty() {
            let mut t = [0u8; 8];
            t[..r.len()].copy_from_slice(r);
            self.u64(u64::from_le_bytes(t));
        }
    }
    pub fn str(&mut self, s: &str) {
        self.bytes(s.as_bytes());
    }
}
