//! The native oracle: a ptrace-stopped stub process whose address space holds the same pages at
//! the same addresses as the emulated machine; one PTRACE_SINGLESTEP = one reference transition.

use crate::common::machinery_error;

pub const PAGE: u64 = 0x1000;
pub const CODE: u64 = 0x4000_0000;
pub const RW: u64 = 0x5000_0000;
pub const RO: u64 = 0x5001_0000;
pub const NONE: u64 = 0x5002_0000;
pub const UNMAPPED: u64 = 0x5003_0000;
pub const STACK: u64 = 0x6000_0000;
/// a data page above 4 GiB: reachable from 32-bit addressing only through a segment base, so
/// `truncate, then add the base` and `add the base, then truncate` give different addresses
pub const HI: u64 = 0x1_5000_0000;
/// a data page whose address has bit 31 set: under 32-bit addressing a displacement or sum
/// that reaches it must be ZERO-extended (sign extension would leave the lower 4 GiB)
pub const HI32: u64 = 0xA000_0000;

pub const STATUS_FLAGS: u64 = 0x8d5; // CF PF AF ZF SF OF
pub const DF: u64 = 0x400;
pub const FLAGS_BASE: u64 = 0x202; // reserved bit 1 + IF

#[derive(Clone, Copy, PartialEq, Eq, Debug)]
pub enum Region {
    Code = 0,
    Rw = 1,
    Ro = 2,
    None = 3,
    Stack = 4,
    Hi = 5,
    Hi32 = 6,
}
pub const REGIONS: [(Region, u64, i32); 7] = [
    (Region::Code, CODE, libc::PROT_READ | libc::PROT_EXEC),
    (Region::Rw, RW, libc::PROT_READ | libc::PROT_WRITE),
    (Region::Ro, RO, libc::PROT_READ),
    (Region::None, NONE, libc::PROT_NONE),
    (Region::Stack, STACK, libc::PROT_READ | libc::PROT_WRITE),
    (Region::Hi, HI, libc::PROT_READ | libc::PROT_WRITE),
    (Region::Hi32, HI32, libc::PROT_READ | libc::PROT_WRITE),
];

#[inline]
pub fn mix64(mut x: u64) -> u64 {
    x = x.wrapping_add(0x9e3779b97f4a7c15);
    x = (x ^ (x >> 30)).wrapping_mul(0xbf58476d1ce4e5b9);
    x = (x ^ (x >> 27)).wrapping_mul(0x94d049bb133111eb);
    x ^ (x >> 31)
}

/// Address-derived content: a load from the wrong address yields a different value.
pub fn pristine_page(base: u64) -> Vec<u8> {
    let mut v = vec![0u8; PAGE as usize];
    for q in 0..(PAGE / 8) {
        let a = base + q * 8;
        v[(q * 8) as usize..(q * 8 + 8) as usize].copy_from_slice(&mix64(a).to_le_bytes());
    }
    v
}

#[derive(Clone, Debug)]
pub struct Sigma {
    pub rip: u64,
    /// iced numbering order: RAX RCX RDX RBX RSP RBP RSI RDI R8..R15
    pub gpr: [u64; 16],
    pub xmm: [u128; 16],
    /// status flags + DF only
    pub flags: u64,
    pub fs: u64,
    pub gs: u64,
}

#[derive(Clone, Debug)]
pub struct NativeOut {
    /// 0 = completed (SIGTRAP after the step), else the fault signal
    pub sig: i32,
    pub si_addr: u64,
    pub rip: u64,
    pub gpr: [u64; 16],
    pub flags: u64,
    pub xmm: Option<[u128; 16]>,
}

pub struct Stub {
    pub pid: i32,
    /// tracer-side RW views of the shared pages, indexed by Region
    views: [*mut u8; 7],
    regs0: libc::user_regs_struct,
    fp0: libc::user_fpregs_struct,
    pub pristine: [Vec<u8>; 7],
    pub steps: u64,
}

fn memfd(name: &str) -> i32 {
    let c = std::ffi::CString::new(name).unwrap();
    let fd = unsafe { libc::memfd_create(c.as_ptr(), 0) };
    if fd < 0 {
        machinery_error("memfd_create failed");
    }
    if unsafe { libc::ftruncate(fd, PAGE as i64) } != 0 {
        machinery_error("ftruncate failed");
    }
    fd
}

impl Stub {
    /// Pins the calling (tracer) process to `cpu`, creates the shared pages and forks the stub.
    pub fn spawn(cpu: usize) -> Stub {
        unsafe {
            let mut set: libc::cpu_set_t = std::mem::zeroed();
            libc::CPU_SET(cpu % crate::common::ncpu(), &mut set);
            libc::sched_setaffinity(0, std::mem::size_of::<libc::cpu_set_t>(), &set);
        }
        let mut fds = [0i32; 7];
        let mut views = [std::ptr::null_mut::<u8>(); 7];
        for (i, (_r, _a, _p)) in REGIONS.iter().enumerate() {
            fds[i] = memfd(&format!("axmc{i}"));
            let p = unsafe {
                libc::mmap(
                    std::ptr::null_mut(),
                    PAGE as usize,
                    libc::PROT_READ | libc::PROT_WRITE,
                    libc::MAP_SHARED,
                    fds[i],
                    0,
                )
            };
            if p == libc::MAP_FAILED {
                machinery_error("mmap of shared view failed");
            }
            views[i] = p as *mut u8;
        }
        let pid = unsafe { libc::fork() };
        if pid < 0 {
            machinery_error("fork of stub failed");
        }
        if pid == 0 {
            unsafe {
                libc::prctl(libc::PR_SET_PDEATHSIG, libc::SIGKILL);
                for (i, (_r, addr, prot)) in REGIONS.iter().enumerate() {
                    let p = libc::mmap(
                        *addr as *mut libc::c_void,
                        PAGE as usize,
                        *prot,
                        libc::MAP_SHARED | libc::MAP_FIXED_NOREPLACE,
                        fds[i],
                        0,
                    );
                    if p as u64 != *addr {
                        libc::_exit(41);
                    }
                }
                if libc::ptrace(libc::PTRACE_TRACEME, 0, 0, 0) != 0 {
                    libc::_exit(42);
                }
                libc::raise(libc::SIGSTOP);
                libc::_exit(43);
            }
        }
        let mut status = 0;
        let r = unsafe { libc::waitpid(pid, &mut status, 0) };
        if r != pid || !libc::WIFSTOPPED(status) {
            machinery_error(&format!("stub did not stop (status {status:#x})"));
        }
        unsafe {
            libc::ptrace(
                libc::PTRACE_SETOPTIONS,
                pid,
                0,
                libc::PTRACE_O_EXITKILL as libc::c_long,
            );
        }
        for fd in fds {
            unsafe { libc::close(fd) };
        }
        let mut regs0: libc::user_regs_struct = unsafe { std::mem::zeroed() };
        let mut fp0: libc::user_fpregs_struct = unsafe { std::mem::zeroed() };
        unsafe {
            if libc::ptrace(libc::PTRACE_GETREGS, pid, 0, &mut regs0 as *mut _) != 0 {
                machinery_error("PTRACE_GETREGS failed");
            }
            if libc::ptrace(libc::PTRACE_GETFPREGS, pid, 0, &mut fp0 as *mut _) != 0 {
                machinery_error("PTRACE_GETFPREGS failed");
            }
        }
        regs0.orig_rax = u64::MAX; // not inside a syscall: no restart logic
        let pristine = [
            vec![0xCCu8; PAGE as usize],
            pristine_page(RW),
            pristine_page(RO),
            pristine_page(NONE),
            pristine_page(STACK),
            pristine_page(HI),
            pristine_page(HI32),
        ];
        let mut s = Stub {
            pid,
            views,
            regs0,
            fp0,
            pristine,
            steps: 0,
        };
        for i in 0..7 {
            s.restore(i);
        }
        s.check_maps();
        s
    }

    /// Every address the alphabets treat as unmapped must really be unmapped in the stub, and
    /// the designated pages must have the designated protections.
    fn check_maps(&self) {
        let txt = match std::fs::read_to_string(format!("/proc/{}/maps", self.pid)) {
            Ok(t) => t,
            Err(e) => machinery_error(&format!("cannot read stub maps: {e}")),
        };
        let mut ranges: Vec<(u64, u64, String)> = vec![];
        for l in txt.lines() {
            let mut it = l.split_whitespace();
            let r = it.next().unwrap_or("");
            let perms = it.next().unwrap_or("").to_string();
            if let Some((a, b)) = r.split_once('-') {
                if let (Ok(a), Ok(b)) = (u64::from_str_radix(a, 16), u64::from_str_radix(b, 16)) {
                    ranges.push((a, b, perms));
                }
            }
        }
        let mapped = |a: u64| ranges.iter().find(|(s, e, _)| *s <= a && a < *e);
        for (_r, addr, prot) in REGIONS.iter() {
            match mapped(*addr) {
                Some((s, e, p)) => {
                    let want = format!(
                        "{}{}{}",
                        if prot & libc::PROT_READ != 0 { "r" } else { "-" },
                        if prot & libc::PROT_WRITE != 0 { "w" } else { "-" },
                        if prot & libc::PROT_EXEC != 0 { "x" } else { "-" }
                    );
                    if *s != *addr || *e != *addr + PAGE || !p.starts_with(&want) {
                        machinery_error(&format!("stub page {addr:#x} is {s:#x}-{e:#x} {p}, want {want}"));
                    }
                }
                None => machinery_error(&format!("stub page {addr:#x} missing")),
            }
            for g in [*addr - 1, *addr - PAGE, *addr + PAGE, *addr + 2 * PAGE - 1] {
                if mapped(g).is_some() {
                    machinery_error(&format!("guard address {g:#x} is mapped in the stub"));
                }
            }
        }
        // nothing else below 4 GiB (32-bit addressing forms can reach it), the designated
        // unmapped page, the null page, and the canonical-boundary probes
        for (s, e, _) in &ranges {
            if *s < 0x1_0000_0000 && !REGIONS.iter().any(|(_, a, _)| a == s) {
                machinery_error(&format!("unexpected low mapping {s:#x}-{e:#x} in the stub"));
            }
        }
        for a in [0u64, 8, UNMAPPED, UNMAPPED + 0x800, 0x0000_7fff_ffff_f000, 0xffff_8000_0000_0000] {
            if mapped(a).is_some() {
                machinery_error(&format!("address {a:#x} assumed unmapped is mapped in the stub"));
            }
        }
    }

    #[inline]
    pub fn view(&self, r: Region) -> &[u8] {
        unsafe { std::slice::from_raw_parts(self.views[r as usize], PAGE as usize) }
    }
    #[inline]
    pub fn view_mut(&mut self, r: Region) -> &mut [u8] {
        unsafe { std::slice::from_raw_parts_mut(self.views[r as usize], PAGE as usize) }
    }
    #[inline]
    pub fn restore(&mut self, i: usize) {
        unsafe {
            std::ptr::copy_nonoverlapping(self.pristine[i].as_ptr(), self.views[i], PAGE as usize);
        }
    }
    pub fn restore_data(&mut self) {
        self.restore(Region::Rw as usize);
        self.restore(Region::Stack as usize);
        self.restore(Region::Hi as usize);
        self.restore(Region::Hi32 as usize);
    }

    /// Writes `bytes` at `CODE + off` over int3 filler.
    pub fn set_code(&mut self, off: usize, bytes: &[u8]) {
        self.restore(Region::Code as usize);
        self.view_mut(Region::Code)[off..off + bytes.len()].copy_from_slice(bytes);
    }

    pub fn poke(&mut self, addr: u64, bytes: &[u8]) {
        for (_i, (r, base, _)) in REGIONS.iter().enumerate() {
            if addr >= *base && addr + bytes.len() as u64 <= *base + PAGE {
                let o = (addr - base) as usize;
                self.view_mut(*r)[o..o + bytes.len()].copy_from_slice(bytes);
                return;
            }
        }
        machinery_error(&format!("poke outside the shared pages: {addr:#x}+{}", bytes.len()));
    }

    fn load(&mut self, s: &Sigma, with_xmm: bool) {
        let mut r = self.regs0;
        r.rax = s.gpr[0];
        r.rcx = s.gpr[1];
        r.rdx = s.gpr[2];
        r.rbx = s.gpr[3];
        r.rsp = s.gpr[4];
        r.rbp = s.gpr[5];
        r.rsi = s.gpr[6];
        r.rdi = s.gpr[7];
        r.r8 = s.gpr[8];
        r.r9 = s.gpr[9];
        r.r10 = s.gpr[10];
        r.r11 = s.gpr[11];
        r.r12 = s.gpr[12];
        r.r13 = s.gpr[13];
        r.r14 = s.gpr[14];
        r.r15 = s.gpr[15];
        r.rip = s.rip;
        r.eflags = FLAGS_BASE | (s.flags & (STATUS_FLAGS | DF));
        r.fs_base = s.fs;
        r.gs_base = s.gs;
        r.orig_rax = u64::MAX;
        unsafe {
            if libc::ptrace(libc::PTRACE_SETREGS, self.pid, 0, &r as *const _) != 0 {
                machinery_error(&format!(
                    "PTRACE_SETREGS failed: {}",
                    std::io::Error::last_os_error()
                ));
            }
        }
        if with_xmm {
            let mut f = self.fp0;
            for i in 0..16 {
                let v = s.xmm[i];
                for k in 0..4 {
                    f.xmm_space[i * 4 + k] = (v >> (32 * k)) as u32;
                }
            }
            unsafe {
                if libc::ptrace(libc::PTRACE_SETFPREGS, self.pid, 0, &f as *const _) != 0 {
                    machinery_error("PTRACE_SETFPREGS failed");
                }
            }
        }
    }

    fn single_step(&mut self, with_xmm: bool) -> NativeOut {
        let mut status = 0;
        unsafe {
            if libc::ptrace(libc::PTRACE_SINGLESTEP, self.pid, 0, 0) != 0 {
                machinery_error("PTRACE_SINGLESTEP failed");
            }
            let r = libc::waitpid(self.pid, &mut status, 0);
            if r != self.pid || !libc::WIFSTOPPED(status) {
                machinery_error(&format!("stub vanished during a step (status {status:#x})"));
            }
        }
        self.steps += 1;
        let sig = libc::WSTOPSIG(status);
        let mut r: libc::user_regs_struct = unsafe { std::mem::zeroed() };
        unsafe {
            if libc::ptrace(libc::PTRACE_GETREGS, self.pid, 0, &mut r as *mut _) != 0 {
                machinery_error("PTRACE_GETREGS failed");
            }
        }
        let mut si_addr = 0;
        if sig != libc::SIGTRAP {
            let mut si: libc::siginfo_t = unsafe { std::mem::zeroed() };
            unsafe {
                libc::ptrace(libc::PTRACE_GETSIGINFO, self.pid, 0, &mut si as *mut _);
                si_addr = si.si_addr() as u64;
            }
        }
        let xmm = if with_xmm {
            let mut f: libc::user_fpregs_struct = unsafe { std::mem::zeroed() };
            unsafe {
                if libc::ptrace(libc::PTRACE_GETFPREGS, self.pid, 0, &mut f as *mut _) != 0 {
                    machinery_error("PTRACE_GETFPREGS failed");
                }
            }
            let mut x = [0u128; 16];
            for i in 0..16 {
                let mut v = 0u128;
                for k in 0..4 {
                    v |= (f.xmm_space[i * 4 + k] as u128) << (32 * k);
                }
                x[i] = v;
            }
            Some(x)
        } else {
            None
        };
        NativeOut {
            sig: if sig == libc::SIGTRAP { 0 } else { sig },
            si_addr,
            rip: r.rip,
            gpr: [
                r.rax, r.rcx, r.rdx, r.rbx, r.rsp, r.rbp, r.rsi, r.rdi, r.r8, r.r9, r.r10, r.r11,
                r.r12, r.r13, r.r14, r.r15,
            ],
            flags: r.eflags,
            xmm,
        }
    }

    /// One reference transition from σ (code and data pages must already be in place).
    pub fn run(&mut self, s: &Sigma, with_xmm: bool) -> NativeOut {
        self.load(s, with_xmm);
        self.single_step(with_xmm)
    }

    /// Continue from wherever the previous step ended (lock-step program execution).
    pub fn step_again(&mut self, with_xmm: bool) -> NativeOut {
        self.single_step(with_xmm)
    }
}

impl Drop for Stub {
    fn drop(&mut self) {
        unsafe {
            libc::kill(self.pid, libc::SIGKILL);
            let mut st = 0;
            libc::waitpid(self.pid, &mut st, 0);
        }
    }
}

pub fn sig_name(sig: i32) -> &'static str {
    match sig {
        0 => "completed",
        libc::SIGSEGV => "SIGSEGV",
        libc::SIGFPE => "SIGFPE",
        libc::SIGBUS => "SIGBUS",
        libc::SIGILL => "SIGILL",
        libc::SIGTRAP => "SIGTRAP",
        _ => "SIG?",
    }
}
