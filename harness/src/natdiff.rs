//! natdiff: bounded-exhaustive single-transition explorer against the native CPU
//! (DESIGN §3.1 engine 1, §3.5 mask, A.1).

use crate::common::{hex, unhex, Findings};
use crate::emu::{self, StepOut, GPR64, GPR_NAMES, XMM};
use crate::native::*;
use crate::tmpl::*;
use ax_x86::axecutor::Axecutor;
use ax_x86::state::registers::SupportedRegister as SR;
use iced_x86::{Code, ConditionCode, Instruction, InstructionInfoFactory, Mnemonic, OpKind, Register, RflagsBits};
use serde_json::{json, Value};
use std::collections::{BTreeMap, BTreeSet, HashSet};

#[derive(Clone, Debug)]
pub struct Case {
    pub bytes: Vec<u8>,
    pub off: usize,
    pub sigma: Sigma,
    pub pokes: Vec<(u64, Vec<u8>)>,
    pub tag: String,
    /// extra class component supplied by the sweep (e.g. addressing shape, placement)
    pub extra_class: String,
    /// replaces `Code|form` as the subject of finding keys (used where the instruction is only a
    /// probe for something orthogonal to it, e.g. addressing)
    pub subject: String,
}

impl Case {
    /// The bytes at RIP (cases of program sweeps hold a whole program placed at `off`).
    pub fn at_rip(&self) -> &[u8] {
        let start = CODE + self.off as u64;
        if self.sigma.rip >= start && ((self.sigma.rip - start) as usize) < self.bytes.len() {
            &self.bytes[(self.sigma.rip - start) as usize..]
        } else {
            &[]
        }
    }
    pub fn to_json(&self) -> Value {
        json!({
            "bytes": hex(&self.bytes),
            "off": self.off,
            "rip": format!("{:#x}", self.sigma.rip),
            "gpr": self.sigma.gpr.iter().map(|v| format!("{v:#x}")).collect::<Vec<_>>(),
            "xmm": self.sigma.xmm.iter().map(|v| format!("{v:#x}")).collect::<Vec<_>>(),
            "flags": format!("{:#x}", self.sigma.flags),
            "fs": format!("{:#x}", self.sigma.fs),
            "gs": format!("{:#x}", self.sigma.gs),
            "pokes": self.pokes.iter().map(|(a, b)| json!([format!("{a:#x}"), hex(b)])).collect::<Vec<_>>(),
            "tag": self.tag,
            "extra_class": self.extra_class,
            "subject": self.subject,
        })
    }
    pub fn from_json(v: &Value) -> Option<Case> {
        let p = |s: &Value| -> Option<u64> {
            u64::from_str_radix(s.as_str()?.trim_start_matches("0x"), 16).ok()
        };
        let p128 = |s: &Value| -> Option<u128> {
            u128::from_str_radix(s.as_str()?.trim_start_matches("0x"), 16).ok()
        };
        let mut gpr = [0u64; 16];
        let mut xmm = [0u128; 16];
        for k in 0..16 {
            gpr[k] = p(&v["gpr"][k])?;
            xmm[k] = p128(&v["xmm"][k])?;
        }
        let mut pokes = vec![];
        for e in v["pokes"].as_array()? {
            pokes.push((p(&e[0])?, unhex(e[1].as_str()?)));
        }
        Some(Case {
            bytes: unhex(v["bytes"].as_str()?),
            off: v["off"].as_u64()? as usize,
            sigma: Sigma {
                rip: p(&v["rip"])?,
                gpr,
                xmm,
                flags: p(&v["flags"])?,
                fs: p(&v["fs"])?,
                gs: p(&v["gs"])?,
            },
            pokes,
            tag: v["tag"].as_str().unwrap_or("").to_string(),
            extra_class: v["extra_class"].as_str().unwrap_or("").to_string(),
            subject: v["subject"].as_str().unwrap_or("").to_string(),
        })
    }
}

pub fn default_sigma(off: usize) -> Sigma {
    let mut gpr = [0u64; 16];
    let mut xmm = [0u128; 16];
    for k in 0..16 {
        gpr[k] = emu::filler_gpr(k);
        xmm[k] = emu::filler_xmm(k);
    }
    gpr[4] = STACK + 0x800;
    Sigma {
        rip: CODE + off as u64,
        gpr,
        xmm,
        flags: 0,
        fs: 0,
        gs: 0,
    }
}

#[derive(Clone, Debug, PartialEq, Eq)]
pub struct Diff {
    pub observable: String,
    pub detail: String,
}

#[derive(Clone, Debug, PartialEq, Eq)]
pub enum Bucket {
    /// both sides completed
    BothCompleted,
    /// native fault, emulator Err
    BothFault,
    /// emulator says the form is not implemented / not supported
    Unimplemented,
    /// native #UD: not a fault class any property lists
    NativeUd,
    /// outcome classes disagree (incl. emulator panic)
    OutcomeMismatch,
    /// native #GP on a transfer to a non-canonical target: a fault class no property lists
    NativeNonCanonical,
}

pub struct CaseResult {
    pub bucket: Bucket,
    pub diffs: Vec<Diff>,
    pub code: Code,
    pub form: &'static str,
    pub class: String,
    pub native_hash: u64,
    pub emu: StepOut,
    pub native_sig: i32,
    /// neither a control transfer nor a stack instruction
    pub is_data: bool,
    pub subject: String,
}

pub struct NatWorker {
    pub stub: Stub,
    pub base: Axecutor,
    pub fac: InstructionInfoFactory,
    /// native post-state of the last case (for program sweeps that chain transitions)
    pub last_native: Option<NativeOut>,
    /// (Code|form) pairs that answered "unimplemented" on the pinned tree: an Err from one of
    /// them is a by-design rejection whatever its wording
    pub pinned_unimplemented: std::collections::BTreeSet<String>,
    /// machines with a history behind them (hidden interpreter state differs from a new machine's:
    /// call-stack bookkeeping, trace, instruction count); architectural state equals `base`
    pub aged: Vec<(&'static str, Axecutor)>,
    /// what went wrong while building `aged` (reported as a finding by the sweeps, not here)
    pub aging_problem: Option<String>,
    /// 0 = new machine, k = aged[k-1]; the native side of the last case is reused when k > 0
    pub aged_mode: usize,
}

/// Histories for the aged machines: (offset into the code page, bytes, rip expected after the
/// step as an offset into the code page). "returned": one return more than calls; "nested":
/// three calls deep.
type AgingStep = (u64, &'static [u8], u64);
const AGING: &[(&str, &[AgingStep])] = &[
    (
        "returned",
        &[
            (0x800, &[0x68, 0x20, 0x08, 0x00, 0x40], 0x805), // push CODE+0x820
            (0x805, &[0xC3], 0x820),                         // ret
            (0x820, &[0xEB, 0x00], 0x822),                   // jmp +0
        ],
    ),
    (
        "nested",
        &[
            (0x800, &[0xE8, 0x0B, 0x00, 0x00, 0x00], 0x810), // call +0xb
            (0x810, &[0xE8, 0x0B, 0x00, 0x00, 0x00], 0x820),
            (0x820, &[0xE8, 0x0B, 0x00, 0x00, 0x00], 0x830),
            (0x830, &[0xEB, 0x00], 0x832),
        ],
    ),
];

const EMU_REGIONS: [(Region, u64, u32); 7] = [
    (Region::Code, CODE, 5),
    (Region::Rw, RW, 3),
    (Region::Ro, RO, 1),
    (Region::None, NONE, 0),
    (Region::Stack, STACK, 3),
    (Region::Hi, HI, 3),
    (Region::Hi32, HI32, 3),
];

impl NatWorker {
    pub fn new(cpu: usize) -> NatWorker {
        let stub = Stub::spawn(cpu);
        let code = vec![0xCCu8; PAGE as usize];
        let mut base = Axecutor::new(&code, CODE, CODE).expect("base machine");
        for (r, addr, prot) in EMU_REGIONS.iter().skip(1) {
            base.mem_init_area(*addr, stub.pristine[*r as usize].clone())
                .expect("area");
            base.mem_prot(*addr, *prot).expect("prot");
        }
        let mut aging_problem = None;
        let mut aged = vec![];
        for (name, prog) in AGING {
            match Self::age(&base, &stub.pristine[Region::Stack as usize], prog) {
                Ok(ax) => aged.push((*name, ax)),
                Err(e) => {
                    aging_problem.get_or_insert(format!("{name}: {e}"));
                }
            }
        }
        NatWorker {
            stub,
            base,
            fac: InstructionInfoFactory::new(),
            last_native: None,
            pinned_unimplemented: load_pinned_unimplemented(),
            aged,
            aging_problem,
            aged_mode: 0,
        }
    }

    /// Runs a short straight-line history on a copy of `base` and puts code, stack, registers
    /// back, so that only state the guest cannot see differs from `base`.
    fn age(base: &Axecutor, stack_pristine: &[u8], prog: &[AgingStep]) -> Result<Axecutor, String> {
        let mut ax = base.clone();
        let start = CODE + 0x800;
        for (off, bytes, _) in prog.iter() {
            Self::emu_poke(&mut ax, CODE + off, bytes);
        }
        ax.reg_write_64(SR::RSP, STACK + 0x800).unwrap();
        ax.reg_write_64(SR::RIP, start).unwrap();
        for (k, (_, _, want)) in prog.iter().enumerate() {
            match emu::step(&mut ax) {
                StepOut::Ok(true) => {} // step() answers "may continue"
                o => return Err(format!("history step {k} ended with {}", o.brief())),
            }
            let rip = emu::rip(&ax);
            if rip != CODE + *want {
                return Err(format!("history step {k} left rip {rip:#x}, expected {:#x}", CODE + *want));
            }
        }
        if ax.verif_finished() {
            return Err("history left the machine finished".into());
        }
        Self::emu_poke(&mut ax, CODE, &vec![0xCCu8; PAGE as usize]);
        Self::emu_poke(&mut ax, STACK, stack_pristine);
        for k in 0..16 {
            ax.reg_write_64(GPR64[k], base.reg_read_64(GPR64[k]).unwrap()).unwrap();
        }
        ax.reg_write_64(SR::RIP, base.reg_read_64(SR::RIP).unwrap()).unwrap();
        ax.verif_set_rflags(base.verif_rflags());
        Ok(ax)
    }

    fn emu_poke(ax: &mut Axecutor, addr: u64, bytes: &[u8]) {
        for (_r, base, prot) in EMU_REGIONS.iter() {
            if addr >= *base && addr + bytes.len() as u64 <= *base + PAGE {
                ax.mem_prot(*base, 3).unwrap();
                ax.mem_write_bytes(addr, bytes).unwrap();
                ax.mem_prot(*base, *prot).unwrap();
                return;
            }
        }
        crate::common::machinery_error("emu poke outside pages");
    }

    pub fn build_emu(&self, c: &Case) -> Axecutor {
        let mut ax = if self.aged_mode > 0 { self.aged[self.aged_mode - 1].1.clone() } else { self.base.clone() };
        Self::emu_poke(&mut ax, CODE + c.off as u64, &c.bytes);
        for (a, b) in &c.pokes {
            Self::emu_poke(&mut ax, *a, b);
        }
        for k in 0..16 {
            ax.reg_write_64(GPR64[k], c.sigma.gpr[k]).unwrap();
            ax.reg_write_128(XMM[k], c.sigma.xmm[k]).unwrap();
        }
        ax.reg_write_64(SR::RIP, c.sigma.rip).unwrap();
        ax.verif_set_rflags(c.sigma.flags & (STATUS_FLAGS | DF));
        ax.write_fs(c.sigma.fs);
        ax.write_gs(c.sigma.gs);
        ax
    }

    /// The case on a new machine, then (control transfers and stack instructions only) on every
    /// machine with a history; of the latter only differences the new machine did not show.
    pub fn run_with_histories(&mut self, c: &Case) -> (CaseResult, Vec<CaseResult>) {
        let r = self.run(c);
        let mut more = vec![];
        let ro_poked = c.pokes.iter().any(|(a, _)| *a >= RO && *a < RO + PAGE);
        if !r.is_data && !ro_poked {
            for k in 1..=self.aged.len() {
                self.aged_mode = k;
                let mut r2 = self.run(c);
                self.aged_mode = 0;
                r2.diffs.retain(|d| !r.diffs.iter().any(|f| f.observable == d.observable));
                more.push(r2);
            }
        }
        (r, more)
    }

    /// key suffix and text of a history that did not run on this tree (control/stack cases only)
    pub fn history_problem(&self, r: &CaseResult, c: &Case) -> Option<(String, String)> {
        let ro_poked = c.pokes.iter().any(|(a, _)| *a >= RO && *a < RO + PAGE);
        if r.is_data || ro_poked {
            return None;
        }
        self.aging_problem
            .as_ref()
            .map(|p| (format!("{}|history|{}", r.subject, p.split(':').next().unwrap_or("")), p.clone()))
    }

    pub fn prepare_native(&mut self, c: &Case) {
        self.stub.set_code(c.off, &c.bytes);
        self.stub.restore_data();
        let mut ro_dirty = false;
        for (a, b) in &c.pokes {
            if *a >= RO && *a < RO + PAGE {
                ro_dirty = true;
            }
            self.stub.poke(*a, b);
        }
        let _ = ro_dirty;
    }

    pub fn run(&mut self, c: &Case) -> CaseResult {
        let d = match decode_at(c.at_rip(), c.sigma.rip) {
            Some(d) => d,
            None => crate::common::machinery_error(&format!("case does not decode: {}", hex(&c.bytes))),
        };
        let i = d.instr;
        if native_denied(&i) || !supported(i.mnemonic()) {
            crate::common::machinery_error(&format!(
                "instruction outside the native allow-list reached natdiff: {i}"
            ));
        }
        let an = analyze(&mut self.fac, &i);
        // native
        let n = if self.aged_mode > 0 {
            // same case again on a machine with a history: the native side has not moved since
            self.last_native.clone().expect("aged run follows a plain run of the same case")
        } else {
            self.prepare_native(c);
            let n = self.stub.run(&c.sigma, an.names_xmm);
            self.last_native = Some(n.clone());
            n
        };
        // emulator
        let mut ax = self.build_emu(c);
        let e = emu::step(&mut ax);
        let class = {
            let ic = input_class(&i, c);
            if c.extra_class.is_empty() {
                ic
            } else if ic.is_empty() {
                c.extra_class.clone()
            } else {
                format!("{},{}", c.extra_class, ic)
            }
        };
        let form = form_of(&i);
        let mut diffs = vec![];
        let mut nh = crate::common::Fp::new();
        nh.u64(n.sig as u64);
        nh.u64(n.rip);
        for v in n.gpr {
            nh.u64(v);
        }
        nh.u64(n.flags & (STATUS_FLAGS | DF));
        nh.bytes(self.stub.view(Region::Rw));
        nh.bytes(self.stub.view(Region::Stack));
        nh.bytes(self.stub.view(Region::Hi));
        nh.bytes(self.stub.view(Region::Hi32));
        if let Some(x) = &n.xmm {
            for v in x {
                nh.u64(*v as u64);
                nh.u64((*v >> 64) as u64);
            }
        }
        let bucket;
        // restore RO page if a poke touched it
        let ro_poked = c.pokes.iter().any(|(a, _)| *a >= RO && *a < RO + PAGE);
        match (&e, n.sig) {
            (_, s) if s == libc::SIGILL => {
                bucket = Bucket::NativeUd;
            }
            (_, s)
                if s == libc::SIGSEGV
                    && n.si_addr == 0
                    && n.rip == c.sigma.rip
                    && matches!(
                        i.flow_control(),
                        iced_x86::FlowControl::Return
                            | iced_x86::FlowControl::IndirectBranch
                            | iced_x86::FlowControl::IndirectCall
                    ) =>
            {
                bucket = Bucket::NativeNonCanonical;
            }
            (StepOut::Err(msg), _)
                if emu::is_unimplemented_msg(msg)
                    || self.pinned_unimplemented.contains(&format!("{:?}|{}", i.code(), form)) =>
            {
                bucket = Bucket::Unimplemented;
            }
            (StepOut::Ok(_), 0) => {
                bucket = Bucket::BothCompleted;
                self.compare(&i, &an, c, &ax, &n, &mut diffs);
            }
            (StepOut::Err(_), s) if s != 0 => {
                bucket = Bucket::BothFault;
            }
            (StepOut::Panic(p), s) => {
                bucket = Bucket::OutcomeMismatch;
                diffs.push(Diff {
                    observable: format!("panic@{}/native_{}", p.tag(), sig_name(s)),
                    detail: format!("emulator panicked: {}", emu::first_line(&p.msg)),
                });
            }
            (eo, s) => {
                bucket = Bucket::OutcomeMismatch;
                diffs.push(Diff {
                    observable: format!("outcome:emu_{}/native_{}", eo.class(), sig_name(s)),
                    detail: format!("emulator {} ; native {} (si_addr {:#x})", eo.brief(), sig_name(s), n.si_addr),
                });
            }
        }
        if ro_poked && self.aged_mode == 0 {
            self.stub.restore(Region::Ro as usize);
        }
        let class = if self.aged_mode > 0 {
            let a = format!("machine-with-history-{}", self.aged[self.aged_mode - 1].0);
            if class.is_empty() { a } else { format!("{class},{a}") }
        } else {
            class
        };
        CaseResult {
            bucket,
            diffs,
            code: i.code(),
            form,
            class,
            native_hash: nh.0,
            emu: e,
            native_sig: n.sig,
            is_data: i.flow_control() == iced_x86::FlowControl::Next && !i.is_stack_instruction(),
            subject: if c.subject.is_empty() { format!("{:?}|{}", i.code(), form) } else { c.subject.clone() },
        }
    }

    /// little-endian value of `n` bytes at `addr` in the native stack page, if inside it
    fn native_stack_value(&self, addr: u64, n: usize) -> Option<u64> {
        if addr < STACK || addr + n as u64 > STACK + PAGE {
            return None;
        }
        let v = self.stub.view(Region::Stack);
        let o = (addr - STACK) as usize;
        let mut x = 0u64;
        for k in 0..n {
            x |= (v[o + k] as u64) << (8 * k);
        }
        Some(x)
    }

    fn compare(
        &self,
        i: &Instruction,
        an: &Analysis,
        c: &Case,
        ax: &Axecutor,
        n: &NativeOut,
        diffs: &mut Vec<Diff>,
    ) {
        // RIP
        let erip = emu::rip(ax);
        let sp_inc = if i.is_stack_instruction() { i.stack_pointer_increment() as i64 } else { 0 };
        let old_rsp = c.sigma.gpr[4];
        if erip != n.rip {
            // role: a return that took its target from the slot above the one hardware pops
            let from_above = i.flow_control() == iced_x86::FlowControl::Return
                && self.native_stack_value(old_rsp.wrapping_add(8), 8) == Some(erip);
            diffs.push(Diff {
                observable: if from_above { "rip:target-from-slot-above".into() } else { "rip".into() },
                detail: format!("emu rip {erip:#x} native {:#x}", n.rip),
            });
        }
        // GPRs
        let eg = emu::gprs(ax);
        let dst_full: Option<(usize, u32)> = if i.op_count() > 0 && i.op0_kind() == OpKind::Register && i.op0_register().is_gpr() {
            Some((
                i.op0_register().full_register().number(),
                (i.op0_register().size() * 8) as u32,
            ))
        } else {
            None
        };
        let cpuid = i.code() == Code::Cpuid;
        for k in 0..16 {
            if cpuid && k < 4 {
                continue;
            }
            if eg[k] != n.gpr[k] {
                let role = if let Some((d, bits)) = dst_full {
                    if d == k {
                        let mask: u64 = if bits >= 64 { u64::MAX } else { (1u64 << bits) - 1 };
                        let himask = if matches!(i.op0_register(), Register::AH | Register::CH | Register::DH | Register::BH) {
                            !0xFF00u64
                        } else {
                            !mask
                        };
                        if (eg[k] ^ n.gpr[k]) & !himask == 0 {
                            "dst-upper".to_string()
                        } else if sp_inc > 0
                            && self.native_stack_value(old_rsp.wrapping_add(sp_inc as u64), sp_inc as usize)
                                == Some(eg[k] & mask)
                        {
                            // a pop that loaded the slot above the one hardware pops
                            "dst:value-from-slot-above".to_string()
                        } else {
                            "dst".to_string()
                        }
                    } else if an.written_gprs.contains(&k) {
                        "implicit".to_string()
                    } else {
                        "unrelated".to_string()
                    }
                } else if k == 4 && i.is_stack_instruction() {
                    "rsp".to_string()
                } else if an.written_gprs.contains(&k) {
                    "implicit".to_string()
                } else {
                    "unrelated".to_string()
                };
                diffs.push(Diff {
                    observable: format!("reg:{role}"),
                    detail: format!("{} emu {:#x} native {:#x} (before {:#x})", GPR_NAMES[k], eg[k], n.gpr[k], c.sigma.gpr[k]),
                });
            }
        }
        // XMM
        let ex = emu::xmms(ax);
        for k in 0..16 {
            let want = match &n.xmm {
                Some(x) => x[k],
                None => c.sigma.xmm[k],
            };
            if ex[k] != want {
                let role = if an.written_xmms.contains(&k) { "dst" } else { "unrelated" };
                diffs.push(Diff {
                    observable: format!("xmm:{role}"),
                    detail: format!("XMM{k} emu {:#x} native {:#x}", ex[k], want),
                });
            }
        }
        // flags
        let (mask, modified) = flag_mask(i, c);
        let ef = ax.verif_rflags();
        let nf = n.flags;
        let dflags = (ef ^ nf) & mask;
        for (bit, name) in FLAG_BITS.iter() {
            if dflags & bit != 0 {
                let kind = if modified & bit != 0 { "flag" } else { "flag-unaffected" };
                diffs.push(Diff {
                    observable: format!("{kind}:{name}"),
                    detail: format!(
                        "{name} emu {} native {} (before {}; flags emu {:#x} native {:#x} in {:#x})",
                        (ef & bit != 0) as u8,
                        (nf & bit != 0) as u8,
                        (c.sigma.flags & bit != 0) as u8,
                        ef & (STATUS_FLAGS | DF),
                        nf & (STATUS_FLAGS | DF),
                        c.sigma.flags
                    ),
                });
            }
        }
        // emulator flag register must not grow bits outside the architectural status/DF set
        if ef & !(STATUS_FLAGS | DF) != 0 {
            diffs.push(Diff {
                observable: "flag:other-bits".into(),
                detail: format!("emu rflags {ef:#x} has bits outside CF/PF/AF/ZF/SF/OF/DF"),
            });
        }
        // memory
        let areas = ax.verif_areas();
        for (r, base, _) in EMU_REGIONS.iter().skip(1) {
            let ea = match areas.iter().find(|a| a.start == *base) {
                Some(a) => a,
                None => {
                    diffs.push(Diff {
                        observable: "mem:area-lost".into(),
                        detail: format!("area {base:#x} missing after step"),
                    });
                    continue;
                }
            };
            let nat: &[u8] = match r {
                Region::Rw | Region::Stack | Region::Hi | Region::Hi32 => self.stub.view(*r),
                _ => {
                    // cannot change natively; compare with what was loaded
                    self.stub.view(*r)
                }
            };
            if ea.data.as_slice() != nat {
                // pre-image of this page
                let mut pre = self.stub.pristine[*r as usize].clone();
                for (a, b) in &c.pokes {
                    if *a >= *base && *a < *base + PAGE {
                        let o = (*a - *base) as usize;
                        pre[o..o + b.len()].copy_from_slice(b);
                    }
                }
                let ew: Vec<usize> = (0..PAGE as usize).filter(|k| ea.data[*k] != pre[*k]).collect();
                let nw: Vec<usize> = (0..PAGE as usize).filter(|k| nat[*k] != pre[*k]).collect();
                let rel = if *r == Region::Stack && sp_inc < 0 {
                    // role of the differing bytes: hardware stores the pushed value at the new
                    // top of stack [rsp_after, +size); a store one slot above it is the old top
                    let size = (-sp_inc) as u64;
                    let hw = n.gpr[4];
                    let allowed = |k: usize| {
                        let a = STACK + k as u64;
                        a >= hw && a < hw.wrapping_add(2 * size)
                    };
                    let differing: Vec<usize> = (0..PAGE as usize).filter(|k| ea.data[*k] != nat[*k]).collect();
                    let emu_slot_ok = (0..size).all(|b| {
                        // the emulator's slot holds what hardware stored one slot below
                        let ek = (hw.wrapping_add(size).wrapping_add(b).wrapping_sub(STACK)) as usize;
                        let hk = (hw.wrapping_add(b).wrapping_sub(STACK)) as usize;
                        ek < PAGE as usize && hk < PAGE as usize && ea.data[ek] == nat[hk]
                    });
                    if differing.iter().all(|k| allowed(*k)) && emu_slot_ok {
                        "store-one-slot-above".to_string()
                    } else {
                        "other".to_string()
                    }
                } else if *r == Region::Stack {
                    "other".to_string()
                } else {
                    // role, not geometry: inside or outside the bytes of the memory operand
                    let ext = eval_ea(c.at_rip(), c.sigma.rip, &c.sigma.gpr, c.sigma.fs, c.sigma.gs)
                        .map(|ea| (ea, ea.wrapping_add(an.mem_size.max(1) as u64)));
                    let inside = |k: usize| match ext {
                        Some((lo, hi)) => {
                            let a = *base + k as u64;
                            a >= lo && a < hi
                        }
                        None => false,
                    };
                    if (0..PAGE as usize).filter(|k| ea.data[*k] != nat[*k]).all(inside) {
                        "dst".to_string()
                    } else {
                        "outside-operand".to_string()
                    }
                };
                let rname = match r {
                    Region::Stack => "stack",
                    Region::Rw | Region::Hi | Region::Hi32 => "data",
                    Region::Ro => "ro",
                    _ => "none",
                };
                let k0 = (0..PAGE as usize).find(|k| ea.data[*k] != nat[*k]).unwrap();
                diffs.push(Diff {
                    observable: format!("mem:{rname}:{rel}"),
                    detail: format!(
                        "first differing byte at {:#x}: emu {:#04x} native {:#04x}; emu changed offsets {:?}, native changed {:?}",
                        base + k0 as u64,
                        ea.data[k0],
                        nat[k0],
                        span(&ew),
                        span(&nw)
                    ),
                });
            }
        }
    }
}

fn load_pinned_unimplemented() -> std::collections::BTreeSet<String> {
    let p = std::path::Path::new(crate::common::VERIF_ROOT).join("baseline").join("forms_pinned.json");
    let mut out = std::collections::BTreeSet::new();
    if let Ok(t) = std::fs::read_to_string(p) {
        if let Ok(v) = serde_json::from_str::<Value>(&t) {
            if let Some(a) = v["unimplemented_forms"].as_array() {
                for e in a {
                    if let Some(s) = e.as_str() {
                        out.insert(s.to_string());
                    }
                }
            }
        }
    }
    out
}

fn span(v: &[usize]) -> String {
    if v.is_empty() {
        "none".into()
    } else {
        format!("{:#x}..={:#x}", v[0], v[v.len() - 1])
    }
}

pub const FLAG_BITS: [(u64, &str); 7] = [
    (0x001, "CF"),
    (0x004, "PF"),
    (0x010, "AF"),
    (0x040, "ZF"),
    (0x080, "SF"),
    (0x800, "OF"),
    (0x400, "DF"),
];

pub fn rflags_bits_to_eflags(b: u32) -> u64 {
    let mut f = 0u64;
    if b & RflagsBits::OF != 0 {
        f |= 0x800;
    }
    if b & RflagsBits::SF != 0 {
        f |= 0x80;
    }
    if b & RflagsBits::ZF != 0 {
        f |= 0x40;
    }
    if b & RflagsBits::AF != 0 {
        f |= 0x10;
    }
    if b & RflagsBits::CF != 0 {
        f |= 0x1;
    }
    if b & RflagsBits::PF != 0 {
        f |= 0x4;
    }
    if b & RflagsBits::DF != 0 {
        f |= 0x400;
    }
    f
}

pub fn op_bits(i: &Instruction) -> u32 {
    // width of the destination operand
    if i.op_count() == 0 {
        return 0;
    }
    match i.op0_kind() {
        OpKind::Register => (i.op0_register().size() * 8) as u32,
        OpKind::Memory => (i.memory_size().size() * 8) as u32,
        _ => 0,
    }
}

fn shift_count(i: &Instruction, c: &Case) -> Option<(u64, u32)> {
    if !matches!(i.mnemonic(), Mnemonic::Shl | Mnemonic::Shr | Mnemonic::Sal | Mnemonic::Sar) {
        return None;
    }
    let w = op_bits(i);
    let raw = if i.op_count() < 2 {
        1
    } else {
        match i.op1_kind() {
            OpKind::Immediate8 => i.immediate8() as u64,
            OpKind::Register => c.sigma.gpr[1] & 0xFF,
            _ => 1,
        }
    };
    Some((raw, w))
}

/// (bits to compare, bits the instruction architecturally modifies)
pub fn flag_mask(i: &Instruction, c: &Case) -> (u64, u64) {
    let modified = rflags_bits_to_eflags(i.rflags_modified());
    let mut undefined = rflags_bits_to_eflags(i.rflags_undefined());
    let mut modified_eff = modified;
    if let Some((raw, w)) = shift_count(i, c) {
        let m = raw & if w == 64 { 63 } else { 31 };
        if m == 0 {
            // nothing is modified: every flag is compared as "unaffected"
            undefined = 0;
            modified_eff = 0;
        } else {
            // AF is undefined for a non-zero count; OF defined only for count 1;
            // CF undefined when the count reaches the operand width
            undefined |= 0x10;
            if m != 1 {
                undefined |= 0x800;
            } else {
                undefined &= !0x800;
            }
            if m >= w as u64 {
                undefined |= 0x1;
            }
        }
    }
    // AF as a *result* flag is outside the property (README: not modelled); it is checked
    // only when the instruction leaves it alone.
    let af_modified = modified_eff & 0x10 != 0;
    let mut mask = STATUS_FLAGS | DF;
    if af_modified {
        mask &= !0x10;
    }
    mask &= !undefined;
    (mask, modified_eff)
}

pub fn eval_cc(cc: ConditionCode, f: u64) -> Option<bool> {
    let cf = f & 1 != 0;
    let pf = f & 4 != 0;
    let zf = f & 0x40 != 0;
    let sf = f & 0x80 != 0;
    let of = f & 0x800 != 0;
    Some(match cc {
        ConditionCode::None => return None,
        ConditionCode::o => of,
        ConditionCode::no => !of,
        ConditionCode::b => cf,
        ConditionCode::ae => !cf,
        ConditionCode::e => zf,
        ConditionCode::ne => !zf,
        ConditionCode::be => cf || zf,
        ConditionCode::a => !cf && !zf,
        ConditionCode::s => sf,
        ConditionCode::ns => !sf,
        ConditionCode::p => pf,
        ConditionCode::np => !pf,
        ConditionCode::l => sf != of,
        ConditionCode::ge => sf == of,
        ConditionCode::le => zf || sf != of,
        ConditionCode::g => !zf && sf == of,
    })
}

/// Small per-family classifiers (DESIGN §3.6): the class names what kind of input it was, never
/// the incidental values.
pub fn input_class(i: &Instruction, c: &Case) -> String {
    if let Some((raw, w)) = shift_count(i, c) {
        let m = raw & if w == 64 { 63 } else { 31 };
        return if raw == 0 {
            "cnt0".into()
        } else if m == 0 {
            "cnt0masked".into()
        } else if m == 1 && raw == 1 {
            "cnt1".into()
        } else if m == 1 {
            "cnt1masked".into()
        } else if (m as u32) < w {
            if w == 64 && m >= 32 {
                "cnt32..63".into()
            } else {
                "cnt2..w-1".into()
            }
        } else if m as u32 == w {
            "cnt=w".into()
        } else {
            "cnt>w".into()
        };
    }
    if let Some(t) = eval_cc(i.condition_code(), c.sigma.flags) {
        return if t { "cond=T".into() } else { "cond=F".into() };
    }
    match i.mnemonic() {
        Mnemonic::Jrcxz => {
            return if c.sigma.gpr[1] == 0 { "rcx=0".into() } else { "rcx!=0".into() };
        }
        Mnemonic::Jecxz => {
            return if c.sigma.gpr[1] == 0 {
                "rcx=0".into()
            } else if c.sigma.gpr[1] & 0xFFFF_FFFF == 0 {
                "ecx=0,rcx!=0".into()
            } else {
                "ecx!=0".into()
            };
        }
        Mnemonic::Adc | Mnemonic::Sbb => {
            return if c.sigma.flags & 1 != 0 { "cin=1".into() } else { "cin=0".into() };
        }
        Mnemonic::Div | Mnemonic::Idiv => {
            return div_class(i, c);
        }
        _ => {}
    }
    String::new()
}

fn operand_value(i: &Instruction, k: u32, c: &Case) -> Option<u128> {
    match i.op_kind(k) {
        OpKind::Register => Some(get_gpr(&c.sigma.gpr, i.op_register(k)) as u128),
        OpKind::Memory => {
            let ea = eval_ea(c.at_rip(), c.sigma.rip, &c.sigma.gpr, c.sigma.fs, c.sigma.gs)?;
            let n = i.memory_size().size();
            // value = poke covering ea, else pristine
            let mut v: u128 = 0;
            for b in 0..n {
                let a = ea.wrapping_add(b as u64);
                let mut byte: Option<u8> = None;
                for (pa, pb) in &c.pokes {
                    if a >= *pa && a < *pa + pb.len() as u64 {
                        byte = Some(pb[(a - *pa) as usize]);
                    }
                }
                let byte = match byte {
                    Some(x) => x,
                    None => {
                        let q = a & !7;
                        (mix64(q) >> (8 * (a & 7))) as u8
                    }
                };
                v |= (byte as u128) << (8 * b);
            }
            Some(v)
        }
        _ => None,
    }
}

fn div_class(i: &Instruction, c: &Case) -> String {
    let w = op_bits(i);
    let dv = match operand_value(i, 0, c) {
        Some(v) => v,
        None => return "?".into(),
    };
    let rax = c.sigma.gpr[0];
    let rdx = c.sigma.gpr[2];
    let mask: u128 = if w == 64 { u64::MAX as u128 } else { (1u128 << w) - 1 };
    let dividend: u128 = match w {
        8 => (rax & 0xFFFF) as u128,
        16 => (((rdx & 0xFFFF) as u128) << 16) | (rax & 0xFFFF) as u128,
        32 => (((rdx & 0xFFFF_FFFF) as u128) << 32) | (rax & 0xFFFF_FFFF) as u128,
        _ => ((rdx as u128) << 64) | rax as u128,
    };
    if dv & mask == 0 {
        return "div0".into();
    }
    if i.mnemonic() == Mnemonic::Div {
        let q = dividend / (dv & mask);
        return if q > mask { "qovf".into() } else { "fits".into() };
    }
    // signed
    let bits2 = 2 * w;
    let sx = |v: u128, bits: u32| -> i128 {
        if bits == 128 {
            v as i128
        } else {
            let sh = 128 - bits;
            ((v << sh) as i128) >> sh
        }
    };
    let sd = sx(dividend, bits2);
    let sv = sx(dv & mask, w);
    let sign = format!("{}{}", if sd < 0 { "-" } else { "+" }, if sv < 0 { "-" } else { "+" });
    let (q, ovf) = match sd.checked_div(sv) {
        Some(q) => (q, false),
        None => (0, true),
    };
    let lo = -(1i128 << (w - 1));
    let hi = (1i128 << (w - 1)) - 1;
    if ovf || q < lo || q > hi {
        format!("qovf{sign}")
    } else {
        format!("fits{sign}")
    }
}

// ------------------------------------------------------------------------------------------
// accumulation in workers, merged in the orchestrator

#[derive(Default)]
pub struct NatStats {
    pub cases: u64,
    pub both_completed: u64,
    pub both_fault: u64,
    pub unimplemented: u64,
    pub native_ud: u64,
    pub native_noncanonical: u64,
    pub outcome_mismatch: u64,
    pub cases_with_diff: u64,
    pub aged_runs: u64,
    pub ok_forms: BTreeSet<String>,
    pub unimpl_forms: BTreeSet<String>,
    pub seen_forms: BTreeSet<String>,
    pub native_hashes: HashSet<u64>,
    pub pre_hashes: HashSet<u64>,
    /// parent side: measured after merging the per-worker hash files
    pub distinct_native: u64,
    pub distinct_pre: u64,
    pub per_tag: BTreeMap<String, u64>,
    pub samples: Vec<Value>,
    pub native_steps: u64,
    pub flags_seen: BTreeMap<String, [u64; 2]>,
}

impl NatStats {
    pub fn to_json(&self) -> Value {
        json!({
            "cases": self.cases,
            "both_completed": self.both_completed,
            "both_fault": self.both_fault,
            "unimplemented": self.unimplemented,
            "native_ud": self.native_ud,
            "native_noncanonical": self.native_noncanonical,
            "outcome_mismatch": self.outcome_mismatch,
            "cases_with_diff": self.cases_with_diff,
            "aged_runs": self.aged_runs,
            "ok_forms": self.ok_forms,
            "unimpl_forms": self.unimpl_forms,
            "seen_forms": self.seen_forms,
            "per_tag": self.per_tag,
            "samples": self.samples,
            "native_steps": self.native_steps,
            "flags_seen": self.flags_seen.iter().map(|(k, v)| (k.clone(), json!([v[0], v[1]]))).collect::<BTreeMap<_, _>>(),
        })
    }
    pub fn merge_json(&mut self, v: &Value) {
        self.cases += v["cases"].as_u64().unwrap_or(0);
        self.both_completed += v["both_completed"].as_u64().unwrap_or(0);
        self.both_fault += v["both_fault"].as_u64().unwrap_or(0);
        self.unimplemented += v["unimplemented"].as_u64().unwrap_or(0);
        self.native_ud += v["native_ud"].as_u64().unwrap_or(0);
        self.native_noncanonical += v["native_noncanonical"].as_u64().unwrap_or(0);
        self.outcome_mismatch += v["outcome_mismatch"].as_u64().unwrap_or(0);
        self.cases_with_diff += v["cases_with_diff"].as_u64().unwrap_or(0);
        self.aged_runs += v["aged_runs"].as_u64().unwrap_or(0);
        self.native_steps += v["native_steps"].as_u64().unwrap_or(0);
        for (f, set) in [
            ("ok_forms", &mut self.ok_forms),
            ("unimpl_forms", &mut self.unimpl_forms),
            ("seen_forms", &mut self.seen_forms),
        ] {
            if let Some(a) = v[f].as_array() {
                for e in a {
                    set.insert(e.as_str().unwrap().to_string());
                }
            }
        }
        if let Some(o) = v["per_tag"].as_object() {
            for (k, n) in o {
                *self.per_tag.entry(k.clone()).or_insert(0) += n.as_u64().unwrap_or(0);
            }
        }
        if let Some(o) = v["flags_seen"].as_object() {
            for (k, n) in o {
                let e = self.flags_seen.entry(k.clone()).or_insert([0, 0]);
                e[0] += n[0].as_u64().unwrap_or(0);
                e[1] += n[1].as_u64().unwrap_or(0);
            }
        }
        if let Some(a) = v["samples"].as_array() {
            for s in a {
                if self.samples.len() < 6 {
                    self.samples.push(s.clone());
                }
            }
        }
    }
}
