//! C14 — built-in pipe handler implements FIFO byte streams.

use crate::common::{Run, Tier};
use crate::emu::StepOut;
use crate::stexp::*;
use ax_x86::auto::generated::SupportedMnemonic;
use ax_x86::axecutor::Axecutor;
use ax_x86::helpers::syscalls::Syscall;
use ax_x86::state::hooks::HookResult;
use ax_x86::state::registers::SupportedRegister as SR;
use serde::{Deserialize, Serialize};
use serde_json::json;
use std::cell::RefCell;
use std::collections::VecDeque;
use std::sync::Arc;

const CODE_AT: u64 = 0x1000;
const BUF: u64 = 0x8000; // data area: fd slots at +0 (pipe 0) / +0x20 (pipe 1), io buffer at +0x100
const BUF_LEN: u64 = 0x200;
const IO: u64 = BUF + 0x100;
const USER_MARK: u64 = 0x7777_0000;
const BIGIO: u64 = 0x10_0000;
const BIGIO_LEN: u64 = 0x2_0000;

thread_local! {
    static USER_LOG: RefCell<Vec<(u64, u64)>> = RefCell::new(vec![]);
}

#[derive(Clone, Debug, PartialEq, Serialize, Deserialize)]
pub enum Fd {
    R(usize),
    W(usize),
    Raw(u64),
}

#[derive(Clone, Debug, PartialEq, Serialize, Deserialize)]
pub enum Op {
    Pipe,
    Write { fd: Fd, n: u64 },
    Read { fd: Fd, n: u64 },
    /// read (rax 0) or write (rax 1) on a NON-pipe descriptor with a buffer that is not mapped:
    /// whose business the buffer is, is the later hook's - the call must still reach it
    ForeignBadBuffer { rax: u64, fd: u64, n: u64 },
    /// read on the read end / write on the write end of pipe `k` with a buffer that is not
    /// mapped: whatever the call answers, no byte may leave or enter the pipe
    PipeBadBuffer { write: bool, k: usize, n: u64 },
}

#[derive(Clone, Debug, PartialEq, Eq, Hash)]
pub struct M {
    /// (read end, write end, queued bytes)
    pub pipes: Vec<(u64, u64, VecDeque<u8>)>,
    pub counter: u8,
    pub next_fd: u64,
    pub collide: bool,
    /// the `large-transfers` machine (seed C14j: a queue that silently stops growing at 64 KiB):
    /// one pipe, writes of tens of thousands of bytes, reads larger than anything queued
    pub big: bool,
}

pub struct C14 {
    pub thorough: bool,
}

impl M {
    fn resolve(&self, fd: &Fd) -> Option<u64> {
        match fd {
            Fd::R(k) => self.pipes.get(*k).map(|p| p.0),
            Fd::W(k) => self.pipes.get(*k).map(|p| p.1),
            Fd::Raw(x) => Some(*x),
        }
    }
}

fn syscall(ax: &mut Axecutor, rax: u64, rdi: u64, rsi: u64, rdx: u64) -> StepOut {
    ax.reg_write_64(SR::RAX, rax).unwrap();
    ax.reg_write_64(SR::RDI, rdi).unwrap();
    ax.reg_write_64(SR::RSI, rsi).unwrap();
    ax.reg_write_64(SR::RDX, rdx).unwrap();
    ax.reg_write_64(SR::RIP, CODE_AT).unwrap();
    USER_LOG.with(|l| l.borrow_mut().clear());
    crate::emu::step(ax)
}

fn fp(ax: &Axecutor) -> u64 {
    let mut f = crate::common::Fp::new();
    let mut a = ax.verif_areas();
    a.sort_by_key(|x| (x.start, x.length));
    for x in &a {
        f.u64(x.start);
        f.u64(x.length);
        f.bytes(&x.data);
    }
    f.str(&crate::emu::canon_syscall_state(&ax.verif_syscall_state_debug()));
    f.u64(ax.verif_finished() as u64);
    f.u64(ax.verif_hooks_running() as u64);
    f.0
}

impl Spec for C14 {
    type Op = Op;
    type M = M;

    fn inits(&self) -> Vec<(String, Axecutor, M)> {
        let mut out = vec![];
        for (label, collide, big) in [("distinct-descriptors", false, false), ("colliding-descriptors", true, false), ("large-transfers", false, true)] {
            let mut code = vec![0x90u8; 0x20];
            code[0..2].copy_from_slice(&[0x0F, 0x05]);
            let mut ax = Axecutor::new(&code, CODE_AT, CODE_AT).unwrap();
            ax.mem_init_zero(BUF, BUF_LEN).unwrap();
            if big {
                ax.mem_init_zero(BIGIO, BIGIO_LEN).unwrap();
            }
            ax.handle_syscalls(vec![Syscall::Pipe]).unwrap();
            // a user hook registered after the built-in ones logs what reaches it
            let user: &'static ax_x86::state::hooks::RustCallbackFunction = Box::leak(Box::new(|ax: &mut Axecutor, _m: SupportedMnemonic| {
                let rax = ax.reg_read_64(SR::RAX)?;
                let rdi = ax.reg_read_64(SR::RDI)?;
                USER_LOG.with(|l| l.borrow_mut().push((rax, rdi)));
                ax.reg_write_64(SR::RAX, USER_MARK | (rax & 0xFF))?;
                Ok(HookResult::Handled)
            }));
            ax.hook_before_mnemonic_native(SupportedMnemonic::Syscall, user).unwrap();
            for k in 0..16 {
                ax.reg_write_64(crate::emu::GPR64[k], crate::emu::filler_gpr(k)).unwrap();
            }
            out.push((
                label.to_string(),
                ax,
                M {
                    pipes: vec![],
                    counter: 1,
                    next_fd: 2000,
                    collide,
                    big,
                },
            ));
        }
        out
    }

    fn ops(&self, m: &M, depth: usize) -> Vec<Op> {
        let mut v = vec![];
        if m.big {
            // histories of at most 4 operations: pipe, then writes / reads around 64 KiB
            if depth >= 4 {
                return v;
            }
            if m.pipes.is_empty() {
                v.push(Op::Pipe);
                return v;
            }
            for n in [40_000u64, 25_537] {
                v.push(Op::Write { fd: Fd::W(0), n });
            }
            for n in [7u64, 65_536, 100_000] {
                v.push(Op::Read { fd: Fd::R(0), n });
            }
            return v;
        }
        if m.pipes.len() < 2 {
            v.push(Op::Pipe);
        }
        let mut fds: Vec<Fd> = vec![];
        for k in 0..m.pipes.len() {
            fds.push(Fd::R(k));
            fds.push(Fd::W(k));
        }
        for raw in [0u64, 1, 5, 1023] {
            fds.push(Fd::Raw(raw));
        }
        // not pipe ends either: descriptors that equal an end of the first pipe in their low 32
        // bits only (a descriptor is the whole of RDI)
        if let Some(p) = m.pipes.first() {
            fds.push(Fd::Raw(p.0 | 1 << 32));
            fds.push(Fd::Raw(p.1 | 0xDEAD << 32));
        }
        for raw in [1u64, 1023] {
            for rax in [0u64, 1] {
                for n in [0u64, 3] {
                    v.push(Op::ForeignBadBuffer { rax, fd: raw, n });
                }
            }
        }
        for k in 0..m.pipes.len() {
            for write in [false, true] {
                for n in [0u64, 3] {
                    v.push(Op::PipeBadBuffer { write, k, n });
                }
            }
        }
        for fd in &fds {
            for n in [0u64, 1, 2, 3, 5] {
                v.push(Op::Write { fd: fd.clone(), n });
            }
            for n in [0u64, 1, 2, 4, 8] {
                v.push(Op::Read { fd: fd.clone(), n });
            }
        }
        v
    }

    fn apply(&self, ax: &mut Axecutor, m: &M, op: &Op, _soft: &mut Vec<Divergence>) -> Result<Option<M>, Divergence> {
        let mut m2 = m.clone();
        match op {
            Op::Pipe => {
                // the harness decides the descriptor numbers through the seam
                let base = m.next_fd;
                let collide_with = if m.collide { m.pipes.first().map(|p| p.0) } else { None };
                let cnt = std::cell::Cell::new(0u64);
                ax_x86::verif::set_fd_provider(Some(Box::new(move |_drawn| {
                    let k = cnt.get();
                    cnt.set(k + 1);
                    match collide_with {
                        Some(fd) if k == 1 => fd, // the new write end reuses an existing read end
                        _ => base + k,
                    }
                })));
                let slot = BUF + 0x20 * m.pipes.len() as u64;
                let out = syscall(ax, 22, slot, 0, 0);
                ax_x86::verif::set_fd_provider(None);
                match out {
                    StepOut::Panic(p) => return Err(div(format!("pipe|panic@{}", p.tag()), format!("pipe() panicked: {}", crate::emu::first_line(&p.msg)))),
                    StepOut::Err(e) => {
                        if collide_with.is_some() {
                            // descriptor collision: crash-freedom only
                            return Ok(None);
                        }
                        return Err(div("pipe|failed", format!("pipe() failed: {}", crate::emu::first_line(&e))));
                    }
                    StepOut::Ok(_) => {}
                }
                if collide_with.is_some() {
                    return Ok(None);
                }
                let rax = ax.reg_read_64(SR::RAX).unwrap();
                if rax != 0 {
                    return Err(div("pipe|wrong-return", format!("pipe() returned {rax:#x}")));
                }
                m2.pipes.push((base, base + 1, VecDeque::new()));
                m2.next_fd = base + 2;
            }
            Op::PipeBadBuffer { write, k, n } => {
                let fdn = if *write { m.pipes[*k].1 } else { m.pipes[*k].0 };
                let what = if *write { "write" } else { "read" };
                let out = syscall(ax, *write as u64, fdn, 0x10, *n); // 0x10: no area there
                let avail = m.pipes[*k].2.len() as u64;
                match out {
                    StepOut::Panic(p) => return Err(div(format!("{what}|panic@{}|unmapped-buffer", p.tag()), format!("{what}({fdn}, unmapped, {n}) panicked: {}", crate::emu::first_line(&p.msg)))),
                    StepOut::Ok(_) => {
                        // nothing to transfer: fine; otherwise bytes went to / came from nowhere
                        let moved = if *write { *n } else { (*n).min(avail) };
                        if moved != 0 {
                            return Err(div(format!("{what}|accepted-unmapped-buffer"), format!("{what}({fdn}, unmapped buffer, {n}) succeeded with {avail} byte(s) queued")));
                        }
                    }
                    StepOut::Err(_) => {}
                }
                // the model is unchanged: the bytes queued before are still what reads deliver
            }
            Op::ForeignBadBuffer { rax, fd, n } => {
                let before = fp(ax);
                let out = syscall(ax, *rax, *fd, 0x10, *n); // 0x10: no area there
                let log = USER_LOG.with(|l| l.borrow().clone());
                let what = if *rax == 0 { "read" } else { "write" };
                match out {
                    StepOut::Panic(p) => return Err(div(format!("{what}|panic@{}|non-pipe", p.tag()), format!("{what}({fd}, unmapped, {n}) panicked: {}", crate::emu::first_line(&p.msg)))),
                    StepOut::Err(e) => return Err(div(format!("{what}|non-pipe-not-left-to-user-hook"), format!("{what}({fd}, unmapped buffer, {n}) on a non-pipe descriptor made the step fail instead of reaching the later hook: {}", crate::emu::first_line(&e)))),
                    StepOut::Ok(_) => {}
                }
                if log != vec![(*rax, *fd)] {
                    return Err(div(format!("{what}|non-pipe-not-left-to-user-hook"), format!("{what}({fd}, unmapped buffer, {n}) on a non-pipe descriptor reached the user hook as {log:?}")));
                }
                let _ = before;
                return Ok(None); // nothing about the pipes changed: no new state
            }
            Op::Write { fd, n } => {
                let fdn = match m.resolve(fd) {
                    Some(x) => x,
                    None => return Ok(None),
                };
                // fresh counter bytes in the guest buffer
                let data: Vec<u8> = (0..*n).map(|i| m.counter.wrapping_add(i as u8)).collect();
                let io = if m.big { BIGIO } else { IO };
                ax.mem_write_bytes(io, &[0xEE; 16]).unwrap();
                if !data.is_empty() {
                    ax.mem_write_bytes(io, &data).unwrap();
                }
                let out = syscall(ax, 1, fdn, io, *n);
                let log = USER_LOG.with(|l| l.borrow().clone());
                let rax = ax.reg_read_64(SR::RAX).unwrap();
                let role = match fd {
                    Fd::W(_) => "write-end",
                    Fd::R(_) => "read-end",
                    Fd::Raw(_) => "non-pipe",
                };
                match out {
                    StepOut::Panic(p) => return Err(div(format!("write|panic@{}|{role}", p.tag()), format!("write({fdn}, {n}) panicked: {}", crate::emu::first_line(&p.msg)))),
                    StepOut::Err(e) => {
                        if role == "read-end" {
                            // wrong end: the call may be refused, but no byte moves (checked by
                            // what later reads deliver)
                            return Ok(Some(m2));
                        }
                        return Err(div(format!("write|failed|{role}"), format!("write({fdn}, buf, {n}) failed: {}", crate::emu::first_line(&e))));
                    }
                    StepOut::Ok(_) => {}
                }
                match fd {
                    Fd::W(k) => {
                        if rax != *n {
                            return Err(div("write|wrong-return|write-end", format!("write({fdn}, buf, {n}) returned {rax:#x}")));
                        }
                        m2.pipes[*k].2.extend(data.iter());
                        m2.counter = m.counter.wrapping_add(*n as u8).max(1);
                    }
                    Fd::Raw(_) => {
                        if log != vec![(1, fdn)] {
                            return Err(div("write|non-pipe-not-left-to-user-hook", format!("write({fdn}, buf, {n}) on a non-pipe descriptor reached the user hook as {log:?}")));
                        }
                    }
                    Fd::R(_) => {} // wrong end: no crash, and no byte moves (the model stays as it is)
                }
            }
            Op::Read { fd, n } => {
                let fdn = match m.resolve(fd) {
                    Some(x) => x,
                    None => return Ok(None),
                };
                let io = if m.big { BIGIO } else { IO };
                ax.mem_write_bytes(io, &[0xEE; 16]).unwrap();
                let out = syscall(ax, 0, fdn, io, *n);
                let log = USER_LOG.with(|l| l.borrow().clone());
                let rax = ax.reg_read_64(SR::RAX).unwrap();
                let role = match fd {
                    Fd::W(_) => "write-end",
                    Fd::R(_) => "read-end",
                    Fd::Raw(_) => "non-pipe",
                };
                match out {
                    StepOut::Panic(p) => return Err(div(format!("read|panic@{}|{role}", p.tag()), format!("read({fdn}, {n}) panicked: {}", crate::emu::first_line(&p.msg)))),
                    StepOut::Err(e) => {
                        if role == "write-end" {
                            return Ok(Some(m2));
                        }
                        return Err(div(format!("read|failed|{role}"), format!("read({fdn}, buf, {n}) failed: {}", crate::emu::first_line(&e))));
                    }
                    StepOut::Ok(_) => {}
                }
                match fd {
                    Fd::R(k) => {
                        let avail = m.pipes[*k].2.len() as u64;
                        let want_k = (*n).min(avail);
                        let st = if avail == 0 { "empty" } else if *n < avail { "partial" } else { "drain" };
                        if rax != want_k {
                            return Err(div(format!("read|wrong-count|{st}"), format!("read({fdn}, buf, {n}) returned {rax:#x}; {avail} bytes were queued")));
                        }
                        let cmp_len = (want_k as usize).max(16);
                        let got = ax.mem_read_bytes(io, cmp_len as u64).unwrap();
                        let mut want = vec![0xEEu8; cmp_len];
                        for i in 0..want_k as usize {
                            want[i] = m2.pipes[*k].2.pop_front().unwrap();
                        }
                        if got != want {
                            let d = (0..cmp_len).find(|&i| got[i] != want[i]).unwrap();
                            let hi = (d + 16).min(cmp_len);
                            return Err(div(format!("read|wrong-bytes|{st}"), format!("read({fdn}, buf, {n}) differs from the FIFO model from byte {d}: buffer {:02x?}, model {:02x?}", &got[d..hi], &want[d..hi])));
                        }
                    }
                    Fd::Raw(_) => {
                        if log != vec![(0, fdn)] {
                            return Err(div("read|non-pipe-not-left-to-user-hook", format!("read({fdn}, buf, {n}) on a non-pipe descriptor reached the user hook as {log:?}")));
                        }
                    }
                    Fd::W(_) => {} // wrong end: as above
                }
            }
        }
        // pipes are independent: the queues of the implementation must be the model's queues
        // (observed through the syscall-state rendering, descriptors known from the seam)
        Ok(Some(m2))
    }

    fn fingerprint(&self, sut: &Axecutor) -> u64 {
        fp(sut)
    }

    fn crash_class(&self, m: &M, op: &Op) -> String {
        let k = match op {
            Op::Pipe => "pipe".to_string(),
            Op::Write { fd, .. } => format!("write|{}", match fd { Fd::R(_) => "read-end", Fd::W(_) => "write-end", Fd::Raw(_) => "non-pipe" }),
            Op::Read { fd, .. } => format!("read|{}", match fd { Fd::R(_) => "read-end", Fd::W(_) => "write-end", Fd::Raw(_) => "non-pipe" }),
            Op::PipeBadBuffer { write, .. } => format!("{}|pipe-end-bad-buffer", if *write { "write" } else { "read" }),
            Op::ForeignBadBuffer { rax, .. } => format!("{}|non-pipe-bad-buffer", if *rax == 0 { "read" } else { "write" }),
        };
        format!("{k}|{}pipes", m.pipes.len())
    }
    fn risky(&self, _op: &Op) -> bool {
        false
    }
}

pub fn run(tier: Tier) -> i32 {
    let mut run = Run::new("C14", tier.clone());
    let spec = Arc::new(C14 { thorough: tier.is_thorough() });
    if let Some(art) = crate::common::replay_artefact() {
        return crate::common::finish_replay("C14", &art, &|ws| ws.iter().map(|w| confirm_stexp(&*spec, w)).collect());
    }
    let depth = std::env::var("VERIF_DEPTH").ok().and_then(|s| s.parse().ok()).unwrap_or(if tier.is_thorough() { 10 } else { 8 });
    let out = run_stexp(Arc::clone(&spec), depth, crate::common::ncpu(), 1 << 30, if tier.is_thorough() { 1500 } else { 45 });
    st_evidence(&mut run, &out, depth, "guest syscalls pipe() (<= 2 pipes), write(fd, n in {0,1,2,3,5}) of fresh counter bytes, read(fd, n in {0,1,2,4,8}); fd in both ends of both pipes and {0, 1, 5, 1023}; read/write on descriptors 1 and 1023 with an unmapped buffer; a user hook registered after the built-in handler logs what reaches it; descriptor seam: distinct and forced-colliding answers; a third machine `large-transfers`: every history of <= 4 operations over pipe(), write(40 000 | 25 537 bytes), read(7 | 65 536 | 100 000 bytes) on one pipe, whole buffers compared");
    run.guard("states", out.states >= 200, format!("{} states", out.states));
    run.assume("wrong-end operations and descriptor collisions: crash-freedom only; where pipe() stores the descriptors in guest memory is not checked");
    let spec2 = Arc::clone(&spec);
    run.finish(&move |w| confirm_stexp(&*spec2, w))
}
