//! Supervisor / worker protocol (DESIGN §3.3, A.3).
//!
//! The orchestrator stays single-threaded and `fork()`s one worker per shard; workers inherit
//! every pre-computed table copy-on-write, publish the case they are about to run in a shared
//! page, and stream JSON lines back over a pipe.  A worker that dies (abort, stack overflow,
//! oversized allocation -> `_exit(78)`) or stops making progress is attributed to the exact
//! case, recorded as an event, and the shard is restarted after that case.

use serde_json::Value;
use std::sync::atomic::{AtomicPtr, AtomicU32, AtomicU64, AtomicUsize, Ordering};
use std::time::{Duration, Instant};

pub const MSG_CAP: usize = 3500;
pub const EXIT_OVERSIZED_ALLOC: i32 = 78;

#[repr(C)]
pub struct SharedPage {
    pub case_idx: AtomicU64,
    pub beats: AtomicU64,
    pub in_case: AtomicU32,
    pub alloc_size: AtomicU64,
    pub msg_len: AtomicU32,
    pub msg: [u8; MSG_CAP],
}

static PAGE: AtomicPtr<SharedPage> = AtomicPtr::new(std::ptr::null_mut());
/// Allocation requests above this many bytes end the worker (0 = guard off).
pub static ALLOC_LIMIT: AtomicUsize = AtomicUsize::new(0);
pub static ALLOC_MAX_SEEN: AtomicUsize = AtomicUsize::new(0);

pub struct GuardAlloc;
unsafe impl std::alloc::GlobalAlloc for GuardAlloc {
    unsafe fn alloc(&self, l: std::alloc::Layout) -> *mut u8 {
        check_alloc(l.size());
        std::alloc::System.alloc(l)
    }
    unsafe fn dealloc(&self, p: *mut u8, l: std::alloc::Layout) {
        std::alloc::System.dealloc(p, l)
    }
    unsafe fn alloc_zeroed(&self, l: std::alloc::Layout) -> *mut u8 {
        check_alloc(l.size());
        std::alloc::System.alloc_zeroed(l)
    }
    unsafe fn realloc(&self, p: *mut u8, l: std::alloc::Layout, n: usize) -> *mut u8 {
        check_alloc(n);
        std::alloc::System.realloc(p, l, n)
    }
}

/// Called (with the guard already switched off) right before a worker ends itself because of an
/// oversized request, so that what it has counted so far is not lost.
pub static EMERGENCY_FN: AtomicUsize = AtomicUsize::new(0);
pub static EMERGENCY_ARG: AtomicUsize = AtomicUsize::new(0);

#[inline]
fn check_alloc(size: usize) {
    let lim = ALLOC_LIMIT.load(Ordering::Relaxed);
    if lim != 0 {
        if size > ALLOC_MAX_SEEN.load(Ordering::Relaxed) {
            ALLOC_MAX_SEEN.store(size, Ordering::Relaxed);
        }
        if size > lim {
            let p = PAGE.load(Ordering::Relaxed);
            if !p.is_null() {
                unsafe { (*p).alloc_size.store(size as u64, Ordering::SeqCst) };
            }
            ALLOC_LIMIT.store(0, Ordering::SeqCst);
            if std::env::var_os("AXMC_ALLOC_TRACE").is_some() {
                eprintln!("oversized allocation of {size} bytes at\n{}", std::backtrace::Backtrace::force_capture());
            }
            let f = EMERGENCY_FN.swap(0, Ordering::SeqCst);
            if f != 0 {
                let func: fn(usize) = unsafe { std::mem::transmute(f) };
                func(EMERGENCY_ARG.load(Ordering::SeqCst));
            }
            unsafe { libc::_exit(EXIT_OVERSIZED_ALLOC) };
        }
    }
}

/// What a worker sees.
pub struct WorkerCtx {
    pub shard: usize,
    pub nshards: usize,
    pub resume_after: Option<u64>,
    pub only: Option<u64>,
    page: *mut SharedPage,
    out_fd: i32,
    buf: Vec<u8>,
}

impl WorkerCtx {
    /// Sharding + resume + single-case filter; publishes the index when the case is taken.
    #[inline]
    pub fn want(&mut self, idx: u64) -> bool {
        if let Some(o) = self.only {
            if idx != o {
                return false;
            }
        } else {
            if idx % self.nshards as u64 != self.shard as u64 {
                return false;
            }
            if let Some(r) = self.resume_after {
                if idx <= r {
                    return false;
                }
            }
        }
        unsafe {
            (*self.page).case_idx.store(idx, Ordering::Relaxed);
            (*self.page).in_case.store(1, Ordering::Relaxed);
            (*self.page).beats.fetch_add(1, Ordering::Relaxed);
        }
        true
    }
    /// True once the single requested case has been passed (lets enumerators stop early).
    pub fn past_only(&self, idx: u64) -> bool {
        matches!(self.only, Some(o) if idx > o)
    }
    /// Short description of the running case for crash attribution.
    pub fn describe(&mut self, s: &str) {
        let b = s.as_bytes();
        let n = b.len().min(MSG_CAP);
        unsafe {
            std::ptr::copy_nonoverlapping(b.as_ptr(), (*self.page).msg.as_mut_ptr(), n);
            (*self.page).msg_len.store(n as u32, Ordering::Relaxed);
        }
    }
    pub fn beat(&mut self) {
        unsafe {
            (*self.page).beats.fetch_add(1, Ordering::Relaxed);
        }
    }
    pub fn idle(&mut self) {
        unsafe {
            (*self.page).in_case.store(0, Ordering::Relaxed);
        }
    }
    pub fn emit(&mut self, v: &Value) {
        let s = serde_json::to_string(v).unwrap();
        self.buf.extend_from_slice(s.as_bytes());
        self.buf.push(b'\n');
        if self.buf.len() > 1 << 16 {
            self.flush();
        }
    }
    pub fn flush(&mut self) {
        let mut off = 0;
        while off < self.buf.len() {
            let r = unsafe {
                libc::write(
                    self.out_fd,
                    self.buf[off..].as_ptr() as *const libc::c_void,
                    self.buf.len() - off,
                )
            };
            if r <= 0 {
                let e = std::io::Error::last_os_error();
                if e.kind() == std::io::ErrorKind::Interrupted {
                    continue;
                }
                unsafe { libc::_exit(3) };
            }
            off += r as usize;
        }
        self.buf.clear();
    }
}

#[derive(Debug, Clone)]
pub struct CrashEvent {
    pub shard: usize,
    pub case_idx: u64,
    pub desc: String,
    /// "signal:<n>" | "exit:<code>" | "hang" | "oversized-alloc:<bytes>"
    pub how: String,
}

pub struct SupOpts {
    pub nshards: usize,
    /// seconds without a heartbeat while inside a case before the worker is killed
    pub hang_secs: u64,
    /// allocation guard threshold in the workers (0 = off)
    pub alloc_limit: usize,
    /// RLIMIT_AS for workers in bytes (0 = none)
    pub rlimit_as: u64,
    /// overall wall-clock cap (seconds); when hit, workers are killed and `capped` is reported
    pub wall_cap_secs: u64,
    /// stop restarting a shard after this many crash events in total (machinery protection)
    pub max_events: usize,
    pub quiet_stdout: bool,
}

impl Default for SupOpts {
    fn default() -> Self {
        SupOpts {
            nshards: crate::common::ncpu(),
            hang_secs: 10,
            alloc_limit: 0,
            rlimit_as: 0,
            wall_cap_secs: 3600,
            max_events: 2000,
            quiet_stdout: false,
        }
    }
}

pub struct SupResult {
    pub events: Vec<CrashEvent>,
    pub capped: bool,
    pub restarts: usize,
}

struct Child {
    pid: i32,
    fd: i32,
    page: *mut SharedPage,
    rbuf: Vec<u8>,
    last_beats: u64,
    last_change: Instant,
    alive: bool,
    eof: bool,
}

fn new_page() -> *mut SharedPage {
    let sz = std::mem::size_of::<SharedPage>().max(4096);
    let p = unsafe {
        libc::mmap(
            std::ptr::null_mut(),
            sz,
            libc::PROT_READ | libc::PROT_WRITE,
            libc::MAP_SHARED | libc::MAP_ANONYMOUS,
            -1,
            0,
        )
    };
    if p == libc::MAP_FAILED {
        crate::common::machinery_error("mmap of shared page failed");
    }
    p as *mut SharedPage
}

fn spawn<F: Fn(&mut WorkerCtx)>(
    shard: usize,
    opts: &SupOpts,
    resume_after: Option<u64>,
    only: Option<u64>,
    page: *mut SharedPage,
    worker: &F,
) -> Child {
    let mut fds = [0i32; 2];
    if unsafe { libc::pipe(fds.as_mut_ptr()) } != 0 {
        crate::common::machinery_error("pipe failed");
    }
    unsafe {
        (*page).in_case.store(0, Ordering::SeqCst);
        (*page).alloc_size.store(0, Ordering::SeqCst);
        (*page).msg_len.store(0, Ordering::SeqCst);
        (*page).case_idx.store(u64::MAX, Ordering::SeqCst);
    }
    use std::io::Write;
    let _ = std::io::stdout().flush();
    let _ = std::io::stderr().flush();
    let pid = unsafe { libc::fork() };
    if pid < 0 {
        crate::common::machinery_error("fork failed");
    }
    if pid == 0 {
        unsafe {
            libc::close(fds[0]);
            libc::prctl(libc::PR_SET_PDEATHSIG, libc::SIGKILL);
            if opts.quiet_stdout {
                let dn = libc::open(b"/dev/null\0".as_ptr() as *const libc::c_char, libc::O_WRONLY);
                if dn >= 0 {
                    libc::dup2(dn, 1);
                }
            }
            if opts.rlimit_as != 0 {
                let rl = libc::rlimit {
                    rlim_cur: opts.rlimit_as,
                    rlim_max: opts.rlimit_as,
                };
                libc::setrlimit(libc::RLIMIT_AS, &rl);
            }
            // no core dumps from deliberate crashes
            let rl0 = libc::rlimit { rlim_cur: 0, rlim_max: 0 };
            libc::setrlimit(libc::RLIMIT_CORE, &rl0);
        }
        PAGE.store(page, Ordering::SeqCst);
        ALLOC_LIMIT.store(opts.alloc_limit, Ordering::SeqCst);
        let mut ctx = WorkerCtx {
            shard,
            nshards: opts.nshards,
            resume_after,
            only,
            page,
            out_fd: fds[1],
            buf: Vec::with_capacity(1 << 16),
        };
        worker(&mut ctx);
        ctx.idle();
        ctx.flush();
        ALLOC_LIMIT.store(0, Ordering::SeqCst);
        unsafe { libc::_exit(0) };
    }
    unsafe {
        libc::close(fds[1]);
        let fl = libc::fcntl(fds[0], libc::F_GETFL);
        libc::fcntl(fds[0], libc::F_SETFL, fl | libc::O_NONBLOCK);
    }
    Child {
        pid,
        fd: fds[0],
        page,
        rbuf: Vec::new(),
        last_beats: 0,
        last_change: Instant::now(),
        alive: true,
        eof: false,
    }
}

fn drain(c: &mut Child, shard: usize, on_msg: &mut dyn FnMut(usize, Value)) {
    let mut tmp = [0u8; 1 << 16];
    loop {
        let r = unsafe { libc::read(c.fd, tmp.as_mut_ptr() as *mut libc::c_void, tmp.len()) };
        if r > 0 {
            c.rbuf.extend_from_slice(&tmp[..r as usize]);
        } else if r == 0 {
            c.eof = true;
            break;
        } else {
            break;
        }
    }
    let mut start = 0;
    while let Some(pos) = c.rbuf[start..].iter().position(|b| *b == b'\n') {
        let line = &c.rbuf[start..start + pos];
        if !line.is_empty() {
            match serde_json::from_slice::<Value>(line) {
                Ok(v) => on_msg(shard, v),
                Err(e) => crate::common::machinery_error(&format!("bad worker line: {e}")),
            }
        }
        start += pos + 1;
    }
    c.rbuf.drain(..start);
}

/// Runs `worker` in `opts.nshards` forked processes. `on_msg` is called in the parent for every
/// JSON line a worker emits.
pub fn run_sharded<F: Fn(&mut WorkerCtx)>(
    opts: &SupOpts,
    worker: F,
    on_msg: &mut dyn FnMut(usize, Value),
) -> SupResult {
    let t0 = Instant::now();
    let mut events = vec![];
    let mut restarts = 0;
    let mut capped = false;
    let mut too_many = false;
    let mut children: Vec<Child> = (0..opts.nshards)
        .map(|s| spawn(s, opts, None, None, new_page(), &worker))
        .collect();
    loop {
        let mut pfds: Vec<libc::pollfd> = children
            .iter()
            .filter(|c| !c.eof)
            .map(|c| libc::pollfd {
                fd: c.fd,
                events: libc::POLLIN,
                revents: 0,
            })
            .collect();
        if !pfds.is_empty() {
            unsafe { libc::poll(pfds.as_mut_ptr(), pfds.len() as libc::nfds_t, 100) };
        }
        for s in 0..children.len() {
            drain(&mut children[s], s, on_msg);
        }
        let mut all_done = true;
        let mut fatal: Option<String> = None;
        for s in 0..children.len() {
            if let Some(msg) = &fatal {
                for o in children.iter() {
                    if o.alive {
                        unsafe { libc::kill(o.pid, libc::SIGKILL) };
                    }
                }
                crate::common::machinery_error(msg);
            }
            if !children[s].alive {
                continue;
            }
            let c = &mut children[s];
            let mut status = 0i32;
            let r = unsafe { libc::waitpid(c.pid, &mut status, libc::WNOHANG) };
            let mut event: Option<String> = None;
            if r == c.pid {
                c.alive = false;
                // read what is left in the pipe
                drain(c, s, on_msg);
                if libc::WIFEXITED(status) && libc::WEXITSTATUS(status) == 0 {
                    // finished
                } else if libc::WIFEXITED(status) {
                    let code = libc::WEXITSTATUS(status);
                    if code == EXIT_OVERSIZED_ALLOC {
                        let sz = unsafe { (*c.page).alloc_size.load(Ordering::SeqCst) };
                        event = Some(format!("oversized-alloc:{sz}"));
                    } else if code == 2 || code == 3 || code == 4 {
                        // the worker itself reported a machinery failure: never a verdict
                        fatal = Some(format!("worker {s} ended with machinery exit code {code}"));
                    } else {
                        event = Some(format!("exit:{code}"));
                    }
                } else if libc::WIFSIGNALED(status) {
                    event = Some(format!("signal:{}", libc::WTERMSIG(status)));
                }
            } else {
                all_done = false;
                let beats = unsafe { (*c.page).beats.load(Ordering::Relaxed) };
                let in_case = unsafe { (*c.page).in_case.load(Ordering::Relaxed) };
                if beats != c.last_beats || in_case == 0 {
                    c.last_beats = beats;
                    c.last_change = Instant::now();
                } else if c.last_change.elapsed() > Duration::from_secs(opts.hang_secs) {
                    unsafe {
                        libc::kill(c.pid, libc::SIGKILL);
                        libc::waitpid(c.pid, &mut status, 0);
                    }
                    c.alive = false;
                    drain(c, s, on_msg);
                    event = Some("hang".to_string());
                }
            }
            if let Some(how) = event {
                let (idx, desc) = unsafe {
                    let p = &*c.page;
                    let n = p.msg_len.load(Ordering::SeqCst) as usize;
                    (
                        p.case_idx.load(Ordering::SeqCst),
                        String::from_utf8_lossy(&p.msg[..n.min(MSG_CAP)]).to_string(),
                    )
                };
                if idx == u64::MAX {
                    crate::common::machinery_error(&format!(
                        "worker {s} died outside any case ({how})"
                    ));
                }
                events.push(CrashEvent {
                    shard: s,
                    case_idx: idx,
                    desc,
                    how,
                });
                if events.len() > opts.max_events {
                    // a tree on which (nearly) every case kills the worker: what has been seen
                    // is more than enough for a verdict; stop here and report it as a capped run
                    too_many = true;
                } else {
                    unsafe { libc::close(c.fd) };
                    let page = c.page;
                    children[s] = spawn(s, opts, Some(idx), None, page, &worker);
                    restarts += 1;
                    all_done = false;
                }
            }
        }
        if let Some(msg) = &fatal {
            for o in children.iter() {
                if o.alive {
                    unsafe { libc::kill(o.pid, libc::SIGKILL) };
                }
            }
            crate::common::machinery_error(msg);
        }
        if all_done && children.iter().all(|c| !c.alive) {
            for s in 0..children.len() {
                drain(&mut children[s], s, on_msg);
            }
            break;
        }
        if too_many || t0.elapsed() > Duration::from_secs(opts.wall_cap_secs) {
            capped = true;
            for c in children.iter_mut() {
                if c.alive {
                    let mut st = 0;
                    unsafe {
                        libc::kill(c.pid, libc::SIGKILL);
                        libc::waitpid(c.pid, &mut st, 0);
                    }
                    c.alive = false;
                }
            }
            for s in 0..children.len() {
                drain(&mut children[s], s, on_msg);
            }
            break;
        }
    }
    for c in &children {
        unsafe { libc::close(c.fd) };
    }
    SupResult {
        events,
        capped,
        restarts,
    }
}

/// Runs exactly one case (index `idx`) in a fresh worker; returns how it ended
/// ("ok" | "signal:n" | "exit:n" | "hang" | "oversized-alloc:n") and what it emitted.
pub fn run_single<F: Fn(&mut WorkerCtx)>(
    opts: &SupOpts,
    idx: u64,
    hang_secs: u64,
    worker: F,
) -> (String, Vec<Value>) {
    let page = new_page();
    let mut c = spawn(0, opts, None, Some(idx), page, &worker);
    let mut msgs = vec![];
    let t0 = Instant::now();
    let how;
    loop {
        {
            let mut cb = |_s: usize, v: Value| msgs.push(v);
            drain(&mut c, 0, &mut cb);
        }
        let mut status = 0i32;
        let r = unsafe { libc::waitpid(c.pid, &mut status, libc::WNOHANG) };
        if r == c.pid {
            let mut cb = |_s: usize, v: Value| msgs.push(v);
            drain(&mut c, 0, &mut cb);
            how = if libc::WIFEXITED(status) && libc::WEXITSTATUS(status) == 0 {
                "ok".to_string()
            } else if libc::WIFEXITED(status) {
                let code = libc::WEXITSTATUS(status);
                if code == EXIT_OVERSIZED_ALLOC {
                    format!("oversized-alloc:{}", unsafe {
                        (*page).alloc_size.load(Ordering::SeqCst)
                    })
                } else {
                    format!("exit:{code}")
                }
            } else {
                format!("signal:{}", libc::WTERMSIG(status))
            };
            break;
        }
        if t0.elapsed() > Duration::from_secs(hang_secs) {
            unsafe {
                libc::kill(c.pid, libc::SIGKILL);
                libc::waitpid(c.pid, &mut status, 0);
            }
            how = "hang".to_string();
            break;
        }
        std::thread::sleep(Duration::from_millis(2));
    }
    unsafe {
        libc::close(c.fd);
        libc::munmap(page as *mut libc::c_void, std::mem::size_of::<SharedPage>().max(4096));
    }
    (how, msgs)
}
