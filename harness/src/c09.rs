//! C09 — memory permissions are enforced on every access path.

use crate::common::{Run, Tier};
use crate::emu::{guarded, StepOut};
use crate::enumrun::*;
use crate::tmpl::*;
use ax_x86::axecutor::Axecutor;
use ax_x86::state::registers::SupportedRegister as SR;
use iced_x86::{FlowControl, InstructionInfoFactory, OpAccess, Register};
use serde_json::json;

const CODE_AT: u64 = 0x40_0000;
const DATA: u64 = 0x50_0000;
const STACKA: u64 = 0x60_0000;
const LEN: u64 = 0x100;

fn mask_name(m: u32) -> String {
    format!(
        "{}{}{}",
        if m & 1 != 0 { "r" } else { "-" },
        if m & 2 != 0 { "w" } else { "-" },
        if m & 4 != 0 { "x" } else { "-" }
    )
}

fn data_bytes() -> Vec<u8> {
    (0..LEN).map(|i| 3 + (i as u8 & 0x3F)).collect()
}

fn areas_hash(ax: &Axecutor) -> u64 {
    let mut f = crate::common::Fp::new();
    let mut a = ax.verif_areas();
    a.sort_by_key(|x| x.start);
    for x in &a {
        f.u64(x.start);
        f.bytes(&x.data);
    }
    f.0
}

struct Guest {
    /// reads the status flags (conditional instruction): judged under both flag extremes
    reads_flags: bool,
    bytes: Vec<u8>,
    /// permissions the explicit memory operand needs (bit mask R=1, W=2); None = conditional
    need_data: Option<u32>,
    need_stack: Option<u32>,
    path: &'static str,
    text: String,
    gpr: [u64; 16],
}

fn guest_templates() -> (Vec<Guest>, serde_json::Value) {
    let census = run_census();
    let canon = crate::sweeps::canonical_templates(&census);
    let mut fac = InstructionInfoFactory::new();
    let mut out = vec![];
    for t in &canon {
        let d = match decode_at(&t.bytes, CODE_AT) {
            Some(d) => d,
            None => continue,
        };
        let i = d.instr;
        if native_denied(&i) {
            continue;
        }
        let is_stack = i.is_stack_instruction();
        if !has_mem(&i) && !is_stack {
            continue;
        }
        let mut gpr = [0u64; 16];
        for k in 0..16 {
            gpr[k] = 0x10 + k as u64; // small benign values: divisors non-zero, quotients fit
        }
        gpr[2] = 0; // rdx = 0 so that divisions fit
        gpr[4] = STACKA + 0x80;
        let mut bytes = t.bytes.clone();
        let mut need_data = Some(0u32);
        if has_mem(&i) {
            match place(&bytes, CODE_AT, DATA + 0x80, 0x8, 0x10, 0, &mut gpr, 0, 0) {
                Some(p) => bytes = p.bytes,
                None => continue,
            }
            if i.memory_base() == Register::RSP || i.memory_index() == Register::RSP {
                // keep RSP in the stack for stack instructions with an RSP-based operand
                if is_stack {
                    continue;
                }
            }
            let info = fac.info(&i);
            let mut acc = OpAccess::None;
            for k in 0..i.op_count() {
                if is_mem_kind(i.op_kind(k)) {
                    acc = info.op_access(k);
                }
            }
            need_data = match acc {
                OpAccess::Read => Some(1),
                OpAccess::Write => Some(2),
                OpAccess::ReadWrite => Some(3),
                OpAccess::NoMemAccess | OpAccess::None => Some(0),
                _ => None, // CondRead / CondWrite / ReadCondWrite: value dependent
            };
        }
        let need_stack = if is_stack {
            let inc = i.stack_pointer_increment();
            if inc < 0 {
                Some(2)
            } else if inc > 0 {
                Some(1)
            } else {
                Some(0)
            }
        } else {
            Some(0)
        };
        // return / indirect targets: a valid code address in every slot
        let path = if is_stack && !has_mem(&i) {
            if need_stack == Some(2) { "stack-store" } else { "stack-load" }
        } else {
            match need_data {
                Some(1) => "guest-load",
                Some(2) => "guest-store",
                Some(3) => "guest-rmw",
                Some(0) => "guest-no-access",
                _ => "guest-conditional",
            }
        };
        let _ = FlowControl::Next;
        out.push(Guest {
            reads_flags: i.rflags_read() != 0,
            bytes,
            need_data,
            need_stack,
            path,
            text: format!("{i}"),
            gpr,
        });
    }
    let info = json!({"census_signatures": census.by_sig.len(), "canonical_templates": canon.len()});
    (out, info)
}

fn machine(code: &[u8], data_mask: u32, stack_mask: u32) -> Axecutor {
    machine_filled(code, data_mask, stack_mask, None)
}

/// `fill`: Some(b) = every byte of the data area is b (value states in which an instruction's
/// result equals what is already stored: the store is due all the same)
fn machine_filled(code: &[u8], data_mask: u32, stack_mask: u32, fill: Option<u8>) -> Axecutor {
    let mut c = code.to_vec();
    c.extend_from_slice(&[0x90; 16]);
    let mut ax = Axecutor::new(&c, CODE_AT, CODE_AT).unwrap();
    ax.mem_init_area(DATA, match fill {
        Some(b) => vec![b; data_bytes().len()],
        None => data_bytes(),
    }).unwrap();
    let mut st = data_bytes();
    // every stack slot holds a valid code address (for RET)
    for q in 0..(LEN / 8) as usize {
        st[q * 8..q * 8 + 8].copy_from_slice(&(CODE_AT + 8).to_le_bytes());
    }
    ax.mem_init_area(STACKA, st).unwrap();
    ax.mem_prot(DATA, data_mask).unwrap();
    ax.mem_prot(STACKA, stack_mask).unwrap();
    ax
}

fn gen<'a>(guests: &'a [Guest], thorough: bool) -> impl Fn(&mut EnumCtx) + Sync + 'a {
    move |e: &mut EnumCtx| {
        let _ = thorough;
        // ---- API accessors x 8 masks
        for mask in 0..8u32 {
            for path in 0..12usize {
                if !e.next() {
                    continue;
                }
                e.describe("api", &format!("mask {} accessor {path}", mask_name(mask)));
                let mut ax = machine(&[0x90], mask, 3);
                let before = areas_hash(&ax);
                let a = DATA + 0x40;
                let (is_write, name, r): (bool, &str, Result<Result<(), String>, crate::emu::PanicInfo>) = match path {
                    0 => (false, "mem_read_bytes", guarded(|| ax.mem_read_bytes(a, 5).map(|_| ()).map_err(|e| e.to_string()))),
                    1 => (false, "mem_read_8", guarded(|| ax.mem_read_8(a).map(|_| ()).map_err(|e| e.to_string()))),
                    2 => (false, "mem_read_16", guarded(|| ax.mem_read_16(a).map(|_| ()).map_err(|e| e.to_string()))),
                    3 => (false, "mem_read_32", guarded(|| ax.mem_read_32(a).map(|_| ()).map_err(|e| e.to_string()))),
                    4 => (false, "mem_read_64", guarded(|| ax.mem_read_64(a).map(|_| ()).map_err(|e| e.to_string()))),
                    5 => (false, "mem_read_128", guarded(|| ax.mem_read_128(a).map(|_| ()).map_err(|e| e.to_string()))),
                    6 => (true, "mem_write_bytes", guarded(|| ax.mem_write_bytes(a, &[1, 2, 3]).map_err(|e| e.to_string()))),
                    7 => (true, "mem_write_8", guarded(|| ax.mem_write_8(a, 0x7E).map_err(|e| e.to_string()))),
                    8 => (true, "mem_write_16", guarded(|| ax.mem_write_16(a, 0x7E7E).map_err(|e| e.to_string()))),
                    9 => (true, "mem_write_32", guarded(|| ax.mem_write_32(a, 0x7E7E7E7E).map_err(|e| e.to_string()))),
                    10 => (true, "mem_write_64", guarded(|| ax.mem_write_64(a, 0x7E7E7E7E7E7E7E7E).map_err(|e| e.to_string()))),
                    _ => (true, "mem_write_128", guarded(|| ax.mem_write_128(a, 0x7E7E7E7E7E7E7E7E7E7E7E7E7E7E7E7E).map_err(|e| e.to_string()))),
                };
                let need = if is_write { 2 } else { 1 };
                let allowed = mask & need == need;
                let p = if is_write { "api-write" } else { "api-read" };
                e.outcome(crate::common::fnv64(format!("{p}{mask}{:?}", r.as_ref().map(|x| x.is_ok())).as_bytes()));
                e.state(mask as u64 * 100 + path as u64);
                match r {
                    Err(pn) => e.finding(&format!("perm|{p}|panic@{}", pn.tag()), || format!("{name} on an area with mask {} panicked", mask_name(mask)), || json!({"path": name, "mask": mask})),
                    Ok(Ok(())) if !allowed => e.finding(&format!("perm|{p}|allowed-without-{}", if is_write { "W" } else { "R" }), || format!("{name} succeeded on an area with mask {}", mask_name(mask)), || json!({"path": name, "mask": mask})),
                    Ok(Err(er)) if allowed => e.finding(&format!("perm|{p}|denied-with-permission"), || format!("{name} failed on an area with mask {}: {}", mask_name(mask), crate::emu::first_line(&er)), || json!({"path": name, "mask": mask})),
                    Ok(Err(_)) => {
                        if areas_hash(&ax) != before {
                            e.finding(&format!("perm|{p}|denied-access-changed-memory"), || format!("denied {name} changed memory (mask {})", mask_name(mask)), || json!({"path": name, "mask": mask}));
                        }
                    }
                    _ => {}
                }
            }
        }
        // ---- instruction fetch x 8 masks (code placed in a data area whose mask varies)
        for mask in 0..8u32 {
            if !e.next() {
                continue;
            }
            e.describe("fetch", &mask_name(mask));
            let mut ax = machine(&[0x90], 3, 3);
            let mut code = vec![0x90u8; 0x20];
            code[0] = 0x90;
            ax.mem_init_area(0x70_0000, code).unwrap();
            ax.mem_prot(0x70_0000, mask).unwrap();
            ax.reg_write_64(SR::RIP, 0x70_0000).unwrap();
            let out = crate::emu::step(&mut ax);
            let allowed = mask & 4 != 0;
            e.outcome(crate::common::fnv64(format!("fetch{mask}{}", out.class()).as_bytes()));
            e.state(10_000 + mask as u64);
            match out {
                StepOut::Panic(p) => e.finding(&format!("perm|fetch|panic@{}", p.tag()), || format!("fetch from an area with mask {} panicked", mask_name(mask)), || json!({"mask": mask})),
                StepOut::Ok(_) if !allowed => e.finding("perm|fetch|fetch-without-X", || format!("an instruction was fetched and executed from an area with mask {}", mask_name(mask)), || json!({"mask": mask})),
                StepOut::Err(er) if allowed => e.finding("perm|fetch|denied-with-permission", || format!("fetch from an area with mask {} failed: {}", mask_name(mask), crate::emu::first_line(&er)), || json!({"mask": mask})),
                _ => {}
            }
        }
        // ---- instruction fetch after a permission CHANGE (seed C09j: a fetch path that remembers the
        // area it last fetched from): one step under mask m1, mem_prot to m2, one more step in the same
        // area - the second fetch obeys m2 whatever happened under m1; in a separate area and in the
        // constructor's own code area
        for kind in 0..2u32 {
            for m1 in 0..8u32 {
                for m2 in 0..8u32 {
                    if !e.next() {
                        continue;
                    }
                    e.describe("fetch-after-prot", &format!("{} -> {} kind {kind}", mask_name(m1), mask_name(m2)));
                    let mut ax = machine(&[0x90, 0x90, 0x90, 0x90], 3, 3);
                    let at = if kind == 0 {
                        ax.mem_init_area(0x70_0000, vec![0x90u8; 0x20]).unwrap();
                        ax.reg_write_64(SR::RIP, 0x70_0000).unwrap();
                        0x70_0000
                    } else {
                        CODE_AT
                    };
                    ax.mem_prot(at, m1).unwrap();
                    let first = crate::emu::step(&mut ax);
                    ax.mem_prot(at, m2).unwrap();
                    let out = crate::emu::step(&mut ax);
                    let allowed = m2 & 4 != 0;
                    e.outcome(crate::common::fnv64(format!("fap{kind}{m1}{m2}{}{}", first.class(), out.class()).as_bytes()));
                    e.state(20_000 + (kind * 64 + m1 * 8 + m2) as u64);
                    let w = || json!({"kind": kind, "m1": m1, "m2": m2});
                    match out {
                        StepOut::Panic(p) => e.finding(&format!("perm|fetch-after-prot|panic@{}", p.tag()), || format!("fetch after mem_prot {} -> {} panicked", mask_name(m1), mask_name(m2)), w),
                        StepOut::Ok(_) if !allowed => e.finding("perm|fetch-after-prot|fetch-without-X", || format!("after one step under mask {} and mem_prot to {}, the next instruction of the same area was still fetched and executed", mask_name(m1), mask_name(m2)), w),
                        StepOut::Err(er) if allowed => e.finding("perm|fetch-after-prot|denied-with-permission", || format!("after one step under mask {} and mem_prot to {}, the fetch failed: {}", mask_name(m1), mask_name(m2), crate::emu::first_line(&er)), w),
                        _ => {}
                    }
                }
            }
        }
        // ---- every memory-touching form x 8 masks on the data area x {rw, each mask} on the stack
        for (gi, g) in guests.iter().enumerate() {
            // baseline with full permissions: forms that fail for other reasons are C06's
            let baseline_ok = {
                let mut ax = machine(&g.bytes, 7, 7);
                for k in 0..16 {
                    ax.reg_write_64(crate::emu::GPR64[k], g.gpr[k]).unwrap();
                }
                matches!(crate::emu::step(&mut ax), StepOut::Ok(_))
            };
            let flag_states: &[u64] = if g.reads_flags { &[0, 0x8d5] } else { &[0] };
            // registers that address memory keep their placement; in value states 1 and 2 every
            // other register and the whole data area hold 0 / all ones, so that add, sub, or, xor,
            // shifts (count 0), and-with-ones and plain stores would write back exactly what is
            // there already - a store that changes nothing still needs W
            let addr_regs: Vec<usize> = match crate::tmpl::decode_at(&g.bytes, CODE_AT) {
                Some(d) => [d.instr.memory_base(), d.instr.memory_index()]
                    .iter()
                    .filter(|r| **r != iced_x86::Register::None && r.is_gpr())
                    .map(|r| r.full_register().number())
                    .chain(std::iter::once(4usize))
                    .collect(),
                None => vec![4],
            };
            for mask in 0..8u32 {
                for fl in flag_states {
                for vs in 0..3usize {
                for which in 0..2 {
                    if vs != 0 && (which == 1 || g.need_data.map(|n| n & 2 == 0).unwrap_or(true)) {
                        continue; // value states only matter for writes to the data operand
                    }
                    // which 0: vary the data area; 1: vary the stack area
                    if which == 0 && g.need_data == Some(0) && g.path != "guest-no-access" {
                        continue;
                    }
                    if which == 1 && g.need_stack == Some(0) {
                        continue;
                    }
                    if !e.next() {
                        continue;
                    }
                    if !baseline_ok {
                        e.count("forms-not-judgeable(fail with full permissions)", 1);
                        continue;
                    }
                    e.describe("guest", &format!("{} mask {} on {}", g.text, mask_name(mask), if which == 0 { "data" } else { "stack" }));
                    let (dm, sm) = if which == 0 { (mask, 3) } else { (3, mask) };
                    let mut ax = machine_filled(&g.bytes, dm, sm, match vs { 0 => None, 1 => Some(0x00), _ => Some(0xFF) });
                    for k in 0..16 {
                        let v = if vs == 0 || addr_regs.contains(&k) { g.gpr[k] } else if vs == 1 { 0 } else { u64::MAX };
                        ax.reg_write_64(crate::emu::GPR64[k], v).unwrap();
                    }
                    ax.verif_set_rflags(*fl);
                    let before = areas_hash(&ax);
                    let out = crate::emu::step(&mut ax);
                    let need = if which == 0 { g.need_data } else { g.need_stack };
                    let path = if which == 0 { g.path } else if g.need_stack == Some(2) { "stack-store" } else { "stack-load" };
                    e.outcome(crate::common::fnv64(format!("{gi}/{mask}/{which}/{fl}/{vs}/{}", out.class()).as_bytes()));
                    e.state(20_000 + ((gi as u64) * 64 + mask as u64 * 4 + which as u64 * 2 + (*fl != 0) as u64) * 4 + vs as u64);
                    e.count("transitions", 1);
                    let w = || json!({"instruction": g.text, "bytes": crate::common::hex(&g.bytes), "mask": mask_name(mask), "area": if which == 0 { "data" } else { "stack" }});
                    match (need, out) {
                        (_, StepOut::Panic(p)) => e.finding(&format!("perm|{path}|panic@{}", p.tag()), || format!("`{}` with mask {} panicked", g.text, mask_name(mask)), w),
                        (Some(n), StepOut::Ok(_)) if mask & n != n => {
                            let missing = if n & 1 != 0 && mask & 1 == 0 { "R" } else { "W" };
                            e.finding(&format!("perm|{path}|allowed-without-{missing}"), || format!("`{}` completed although its {} operand area has mask {} (needs {})", g.text, if which == 0 { "memory" } else { "stack" }, mask_name(mask), mask_name(n)), w)
                        }
                        // a guest store may read its destination first (every x86 page that is
                        // writable is readable): 'must succeed' is demanded only with R and W
                        (Some(n), StepOut::Err(er)) if mask & n == n && (n & 2 == 0 || mask & 3 == 3) => e.finding(&format!("perm|{path}|denied-with-permission"), || format!("`{}` failed although mask {} grants {}: {}", g.text, mask_name(mask), mask_name(n), crate::emu::first_line(&er)), w),
                        (_, StepOut::Err(_)) => {
                            if areas_hash(&ax) != before {
                                e.finding(&format!("perm|{path}|denied-access-changed-memory"), || format!("`{}` was denied (mask {}) but memory changed", g.text, mask_name(mask)), w);
                            }
                        }
                        _ => {}
                    }
                }
                }
                }
            }
        }
        // ---- the same rule for accesses made from INSIDE a hook: a native before-hook on `nop`
        // reads and writes the data area through the API, and the built-in pipe handler copies
        // guest data into it (`read` into the masked area)
        for mask in 0..8u32 {
            if !e.next() {
                continue;
            }
            e.describe("in-hook", &mask_name(mask));
            thread_local! {
                static HOOK_RES: std::cell::RefCell<(Option<bool>, Option<bool>)> = std::cell::RefCell::new((None, None));
            }
            let hook: &'static ax_x86::state::hooks::RustCallbackFunction = Box::leak(Box::new(|ax: &mut Axecutor, _m: ax_x86::auto::generated::SupportedMnemonic| {
                let r = ax.mem_read_8(DATA + 0x40).is_ok();
                let w = ax.mem_write_8(DATA + 0x41, 0x5A).is_ok();
                HOOK_RES.with(|h| *h.borrow_mut() = (Some(r), Some(w)));
                Ok(ax_x86::state::hooks::HookResult::Unhandled)
            }));
            let mut ax = machine(&[0x90], mask, 3);
            ax.hook_before_mnemonic_native(ax_x86::auto::generated::SupportedMnemonic::Nop, hook).unwrap();
            HOOK_RES.with(|h| *h.borrow_mut() = (None, None));
            let before = areas_hash(&ax);
            let out = crate::emu::step(&mut ax);
            let (r, w) = HOOK_RES.with(|h| *h.borrow());
            e.outcome(crate::common::fnv64(format!("inhook{mask}{r:?}{w:?}{}", out.class()).as_bytes()));
            e.state(12_000 + mask as u64);
            e.count("transitions", 1);
            let wj = || json!({"mask": mask_name(mask), "path": "API access from inside a hook"});
            if let StepOut::Panic(p) = &out {
                e.finding(&format!("perm|in-hook|panic@{}", p.tag()), || format!("API access from a hook with mask {} panicked", mask_name(mask)), wj);
                continue;
            }
            if r == Some(true) && mask & 1 == 0 {
                e.finding("perm|in-hook|allowed-without-R", || format!("mem_read_8 from inside a hook succeeded on an area with mask {}", mask_name(mask)), wj);
            }
            if r == Some(false) && mask & 1 != 0 {
                e.finding("perm|in-hook|denied-with-permission", || format!("mem_read_8 from inside a hook failed on an area with mask {}", mask_name(mask)), wj);
            }
            if w == Some(true) && mask & 2 == 0 {
                e.finding("perm|in-hook|allowed-without-W", || format!("mem_write_8 from inside a hook succeeded on an area with mask {}", mask_name(mask)), wj);
            }
            if w == Some(false) && mask & 2 != 0 {
                e.finding("perm|in-hook|denied-with-permission", || format!("mem_write_8 from inside a hook failed on an area with mask {}", mask_name(mask)), wj);
            }
            if mask & 2 == 0 && areas_hash(&ax) != before {
                e.finding("perm|in-hook|denied-access-changed-memory", || format!("memory of an area with mask {} changed from inside a hook", mask_name(mask)), wj);
            }
            if r.is_none() {
                e.finding("perm|in-hook|hook-did-not-run", || "the probing hook did not run".to_string(), wj);
            }
        }
        for mask in 0..8u32 {
            if !e.next() {
                continue;
            }
            e.describe("pipe-read-into", &mask_name(mask));
            // syscall x3: pipe(fds at STACKA+0x80), write(w, STACKA+0x90, 4), read(r, DATA+0x40, 4)
            let mut ax = machine(&[0x0F, 0x05, 0x0F, 0x05, 0x0F, 0x05], mask, 3);
            if ax.handle_syscalls(vec![ax_x86::helpers::syscalls::Syscall::Pipe]).is_err() {
                continue;
            }
            let sys = |ax: &mut Axecutor, rax: u64, rdi: u64, rsi: u64, rdx: u64| {
                ax.reg_write_64(SR::RAX, rax).unwrap();
                ax.reg_write_64(SR::RDI, rdi).unwrap();
                ax.reg_write_64(SR::RSI, rsi).unwrap();
                ax.reg_write_64(SR::RDX, rdx).unwrap();
                crate::emu::step(ax)
            };
            let o1 = sys(&mut ax, 22, STACKA + 0x80, 0, 0);
            if !o1.is_ok() {
                continue;
            }
            let rd = ax.mem_read_32(STACKA + 0x80).unwrap_or(0);
            let wr = ax.mem_read_32(STACKA + 0x84).unwrap_or(0);
            let o2 = sys(&mut ax, 1, wr, STACKA + 0x90, 4);
            if !o2.is_ok() {
                continue;
            }
            let before = areas_hash(&ax);
            let o3 = sys(&mut ax, 0, rd, DATA + 0x40, 4);
            e.outcome(crate::common::fnv64(format!("piperead{mask}{}", o3.class()).as_bytes()));
            e.state(13_000 + mask as u64);
            e.count("transitions", 3);
            let wj = || json!({"mask": mask_name(mask), "path": "built-in read() handler copying into the area"});
            match o3 {
                StepOut::Panic(p) => e.finding(&format!("perm|pipe-read|panic@{}", p.tag()), || format!("read() into an area with mask {} panicked", mask_name(mask)), wj),
                StepOut::Ok(_) if mask & 2 == 0 => e.finding("perm|pipe-read|allowed-without-W", || format!("read() stored pipe data into an area with mask {}", mask_name(mask)), wj),
                StepOut::Err(_) if mask & 2 == 0 && areas_hash(&ax) != before => e.finding("perm|pipe-read|denied-access-changed-memory", || format!("read() into an area with mask {} failed but memory changed", mask_name(mask)), wj),
                StepOut::Err(er) if mask & 3 == 3 => e.finding("perm|pipe-read|denied-with-permission", || format!("read() into an area with mask {} failed: {}", mask_name(mask), crate::emu::first_line(&er)), wj),
                _ => {}
            }
        }
        // ---- instruction fetch that would have to continue in the NEXT area: the first bytes of
        // `mov rax, 0x2a` end an executable area, the rest starts an adjacent area whose mask
        // varies; executing it needs X on every byte fetched
        for mask in 0..8u32 {
            for split in [1usize, 3, 6] {
                if !e.next() {
                    continue;
                }
                e.describe("fetch-straddle", &format!("{} split {split}", mask_name(mask)));
                let instr = [0x48u8, 0xC7, 0xC0, 0x2A, 0x00, 0x00, 0x00];
                let mut ax = machine(&[0x90], 3, 3);
                ax.mem_init_area(0x70_0000, instr[..split].to_vec()).unwrap();
                ax.mem_prot(0x70_0000, 5).unwrap();
                let mut rest = instr[split..].to_vec();
                rest.resize(0x20, 0x90);
                ax.mem_init_area(0x70_0000 + split as u64, rest).unwrap();
                ax.mem_prot(0x70_0000 + split as u64, mask).unwrap();
                ax.reg_write_64(SR::RIP, 0x70_0000).unwrap();
                ax.reg_write_64(SR::RAX, 0x77).unwrap();
                let out = crate::emu::step(&mut ax);
                e.outcome(crate::common::fnv64(format!("straddle{mask}/{split}{}", out.class()).as_bytes()));
                e.state(11_000 + mask as u64 * 8 + split as u64);
                e.count("transitions", 1);
                let w = || json!({"mask_of_following_area": mask_name(mask), "split": split});
                match out {
                    StepOut::Panic(p) => e.finding(&format!("perm|fetch-straddle|panic@{}", p.tag()), || format!("fetch across two areas (second with mask {}) panicked", mask_name(mask)), w),
                    StepOut::Ok(_) if mask & 4 == 0 => e.finding("perm|fetch-straddle|fetch-without-X", || format!("an instruction whose last {} byte(s) lie in an area with mask {} was fetched and executed (RAX {:#x})", 7 - split, mask_name(mask), ax.reg_read_64(SR::RAX).unwrap_or(0)), w),
                    _ => {}
                }
            }
        }
        // ---- a 16-byte store whose upper half lies in the NEXT area (mask varies): however the
        // store is carried out, a denied access leaves memory unchanged
        for mask in 0..8u32 {
            for path in 0..2usize {
                if !e.next() {
                    continue;
                }
                e.describe("store-across", &format!("{} path {path}", mask_name(mask)));
                let mut ax = machine(&[0x0F, 0x11, 0x00], 3, 3); // movups [rax], xmm0
                ax.mem_init_area(0x70_1000, (0u8..0x10).collect()).unwrap();
                ax.mem_init_area(0x70_1010, (0x10u8..0x20).collect()).unwrap();
                ax.mem_prot(0x70_1010, mask).unwrap();
                ax.reg_write_64(SR::RAX, 0x70_1008).unwrap();
                ax.reg_write_128(crate::emu::XMM[0], 0xA1A2A3A4A5A6A7A8_B1B2B3B4B5B6B7B8u128).unwrap();
                let before = areas_hash(&ax);
                let (name, failed, panic) = if path == 0 {
                    match guarded(|| ax.mem_write_128(0x70_1008, 0xA1A2A3A4A5A6A7A8_B1B2B3B4B5B6B7B8u128).map_err(|e| e.to_string())) {
                        Ok(r) => ("mem_write_128", r.is_err(), None),
                        Err(p) => ("mem_write_128", false, Some(p)),
                    }
                } else {
                    match crate::emu::step(&mut ax) {
                        StepOut::Ok(_) => ("movups [rax],xmm0", false, None),
                        StepOut::Err(_) => ("movups [rax],xmm0", true, None),
                        StepOut::Panic(p) => ("movups [rax],xmm0", false, Some(p)),
                    }
                };
                e.outcome(crate::common::fnv64(format!("across{mask}/{path}/{failed}").as_bytes()));
                e.state(14_000 + mask as u64 * 2 + path as u64);
                e.count("transitions", 1);
                let w = || json!({"mask_of_following_area": mask_name(mask), "store": name});
                if let Some(p) = panic {
                    e.finding(&format!("perm|store-across|panic@{}", p.tag()), || format!("{name} across two areas panicked"), w);
                } else if failed && areas_hash(&ax) != before {
                    e.finding("perm|store-across|denied-access-changed-memory", || format!("{name} at the last 8 bytes of a writable area, upper half in an area with mask {}: the store failed but memory changed", mask_name(mask)), w);
                } else if !failed && mask & 2 == 0 {
                    e.finding("perm|store-across|allowed-without-W", || format!("{name} wrote into an area with mask {}", mask_name(mask)), w);
                }
            }
        }
        // ---- configurations
        if e.next() {
            e.describe("config", "constructor code area");
            // constructor: code is R+X -> guest store into the code fails, fetch works
            let code = [0x88u8, 0x03, 0x90, 0x90, 0x90, 0x90]; // mov [rbx],al
            let mut ax = Axecutor::new(&code, CODE_AT, CODE_AT).unwrap();
            ax.reg_write_64(SR::RBX, CODE_AT + 3).unwrap();
            ax.reg_write_64(SR::RAX, 0x55).unwrap();
            let before = areas_hash(&ax);
            match crate::emu::step(&mut ax) {
                StepOut::Ok(_) => e.finding("perm|config|constructor-code-writable-by-guest", || "a guest store into the constructor's code area succeeded".to_string(), || json!({})),
                StepOut::Err(_) if areas_hash(&ax) != before => e.finding("perm|config|denied-access-changed-memory", || "denied store changed the code".to_string(), || json!({})),
                StepOut::Panic(p) => e.finding(&format!("perm|config|panic@{}", p.tag()), || "store into code panicked".to_string(), || json!({})),
                _ => {}
            }
            if guarded(|| ax.mem_write_8(CODE_AT + 3, 1)).map(|r| r.is_ok()).unwrap_or(false) {
                e.finding("perm|config|constructor-code-writable-by-api", || "mem_write_8 into the constructor's code area succeeded".to_string(), || json!({}));
            }
            e.state(90_001);
            e.outcome(90_001);
        }
        if e.next() {
            e.describe("config", "elf segments");
            let elf = crate::elfgen::simple_two_segment();
            if let Ok(mut ax) = Axecutor::from_binary(&elf) {
                // text R+X at 0x401000 (first bytes: syscall), data RW at 0x403000
                if guarded(|| ax.mem_write_8(0x401004, 1)).map(|r| r.is_ok()).unwrap_or(false) {
                    e.finding("perm|config|elf-text-writable", || "a write into an ELF text segment (R+X) succeeded".to_string(), || json!({}));
                }
                ax.reg_write_64(SR::RIP, 0x403000).unwrap();
                if let StepOut::Ok(_) = crate::emu::step(&mut ax) {
                    e.finding("perm|config|elf-data-executable", || "an instruction was executed from an ELF data segment (RW)".to_string(), || json!({}));
                }
            }
            e.state(90_002);
            e.outcome(90_002);
        }
        // ---- permissions survive what happens to the area afterwards: resizing (API and, for the
        // heap, the guest's brk) must not hand back access that mem_prot took away
        for mask in 0..8u32 {
            for how in 0..3usize {
                if !e.next() {
                    continue;
                }
                let hname = ["grown", "shrunk", "heap grown by brk"][how];
                e.describe("config", &format!("mask {} then {hname}", mask_name(mask)));
                e.state(91_000 + mask as u64 * 4 + how as u64);
                // mov [rbx],al ; syscall
                let code = [0x88u8, 0x03, 0x0F, 0x05, 0x90, 0x90, 0x90, 0x90];
                let mut ax = Axecutor::new(&code, CODE_AT, CODE_AT).unwrap();
                let area = if how < 2 {
                    ax.mem_init_area(DATA, vec![0x5A; 0x40]).unwrap();
                    ax.mem_prot(DATA, mask).unwrap();
                    let r = guarded(|| ax.mem_resize_section(DATA, if how == 0 { 0x80 } else { 0x20 }).map_err(|e| e.to_string()));
                    if !matches!(r, Ok(Ok(()))) {
                        continue; // whether the resize itself works is C10's subject
                    }
                    DATA
                } else {
                    use ax_x86::helpers::syscalls::Syscall;
                    ax.handle_syscalls(vec![Syscall::Brk]).unwrap();
                    ax.reg_write_64(SR::RIP, CODE_AT + 2).unwrap();
                    ax.reg_write_64(SR::RAX, 12).unwrap();
                    ax.reg_write_64(SR::RDI, 0).unwrap();
                    if !matches!(crate::emu::step(&mut ax), StepOut::Ok(_)) {
                        continue;
                    }
                    let brk0 = ax.reg_read_64(SR::RAX).unwrap();
                    let base = match ax.verif_areas().iter().find(|a| a.start as u128 + a.length as u128 == brk0 as u128) {
                        Some(a) => a.start,
                        None => continue,
                    };
                    ax.mem_prot(base, mask).unwrap();
                    ax.reg_write_64(SR::RIP, CODE_AT + 2).unwrap();
                    ax.reg_write_64(SR::RAX, 12).unwrap();
                    ax.reg_write_64(SR::RDI, brk0 + 0x100).unwrap();
                    if !matches!(crate::emu::step(&mut ax), StepOut::Ok(_)) {
                        continue;
                    }
                    base
                };
                let w = || json!({"mask": mask_name(mask), "then": hname});
                let mut outcome = 0u64;
                // API read / write
                let rd = guarded(|| ax.mem_read_8(area + 8)).map(|r| r.is_ok()).unwrap_or(false);
                if rd && mask & 1 == 0 {
                    e.finding("perm|config|read-allowed-without-R-after-resize", || format!("an area with mask {} was {hname}; afterwards mem_read_8 succeeds", mask_name(mask)), w);
                }
                let before = areas_hash(&ax);
                let wr = guarded(|| ax.mem_write_8(area + 8, 0x77)).map(|r| r.is_ok()).unwrap_or(false);
                if wr && mask & 2 == 0 {
                    e.finding("perm|config|write-allowed-without-W-after-resize", || format!("an area with mask {} was {hname}; afterwards mem_write_8 succeeds", mask_name(mask)), w);
                } else if !wr && areas_hash(&ax) != before {
                    e.finding("perm|config|denied-access-changed-memory", || format!("denied write after the area was {hname} changed memory"), w);
                }
                outcome |= rd as u64 | (wr as u64) << 1;
                // guest store
                ax.reg_write_64(SR::RIP, CODE_AT).unwrap();
                ax.reg_write_64(SR::RBX, area + 9).unwrap();
                ax.reg_write_64(SR::RAX, 0x33).unwrap();
                if let StepOut::Ok(_) = crate::emu::step(&mut ax) {
                    outcome |= 4;
                    if mask & 2 == 0 {
                        e.finding("perm|config|guest-store-allowed-without-W-after-resize", || format!("an area with mask {} was {hname}; afterwards a guest store succeeds", mask_name(mask)), w);
                    }
                }
                e.outcome(91_000 + (mask as u64 * 4 + how as u64) * 8 + outcome);
                e.count("transitions", 4);
            }
        }
    }
}

pub fn run(tier: Tier) -> i32 {
    let mut run = Run::new("C09", tier.clone());
    let (guests, info) = guest_templates();
    let o = EnumOpts {
        sup: crate::sup::SupOpts {
            hang_secs: 20,
            ..Default::default()
        },
        wall_cap_secs: if tier.is_thorough() { 1500 } else { 45 },
        crash_subject: "perm".into(),
    };
    let g = gen(&guests, tier.is_thorough());
    if let Some(art) = crate::common::replay_artefact() {
        return crate::common::finish_replay("C09", &art, &|ws| confirm_enum(&o, &g, ws));
    }
    let out = run_enum(&o, &g);
    enum_evidence(&mut run, &out, "one case = (permission mask of the operand's area, access path); paths: 12 API accessors (also called from inside a native hook), the built-in read() handler copying pipe data into the area, instruction fetch, every canonical memory-touching instruction form of the census (explicit operand and implicit stack access separately), constructor/ELF configurations; required permission per operand from iced OpAccess; states = distinct (path, mask) pairs; distinct_nontrivial = distinct (path, mask, outcome)");
    run.cov("memory_touching_forms", json!(guests.len()));
    run.cov("census", info);
    run.guard("forms", guests.len() >= 150, format!("{} memory-touching forms", guests.len()));
    run.guard("cases", out.cases >= 1000, format!("{} cases", out.cases));
    run.assume("forms that fail even with full permissions are not judged here (C06); conditional accesses (CondRead/CondWrite) may go either way");
    let code = run.finish_batch(&|ws| confirm_enum(&o, &g, ws));
    code
}
