//! stexp: explicit-state search (stateright BFS) in which every state carries the live
//! `Axecutor` next to the reference model (DESIGN §3.1 engine 2, A.2).

use crate::common::{Finding, Findings};
use crate::sup::{self, SupOpts, WorkerCtx};
use ax_x86::axecutor::Axecutor;
use serde_json::{json, Value};
use stateright::{Checker, Model, Property};
use std::collections::BTreeSet;
use std::fmt::Debug;
use std::hash::{Hash, Hasher};
use std::sync::atomic::{AtomicU64, Ordering};
use std::sync::{Arc, Mutex};

/// The live machine inside a checker state.  `Axecutor` is `Clone` but not `Send`/`Sync`
/// because its hook table holds `&'static dyn Fn`; the only closures ever registered are the
/// harness's own leaked closures that talk to thread-local logs, and every transition runs on
/// one thread from start to end, so sharing the (immutable) parent state is sound.
pub struct Sut(pub Axecutor);
unsafe impl Send for Sut {}
unsafe impl Sync for Sut {}

/// Divergence between implementation and model on one transition.
pub struct Divergence {
    pub key: String,
    pub what: String,
}

pub fn div(key: impl Into<String>, what: impl Into<String>) -> Divergence {
    Divergence {
        key: key.into(),
        what: what.into(),
    }
}

pub trait Spec: Send + Sync + 'static {
    type Op: Clone + Debug + PartialEq + Send + Sync + serde::Serialize + serde::de::DeserializeOwned + 'static;
    type M: Clone + Debug + PartialEq + Hash + Send + Sync + 'static;

    /// initial machines: (label, machine, model)
    fn inits(&self) -> Vec<(String, Axecutor, Self::M)>;
    fn ops(&self, m: &Self::M, depth: usize) -> Vec<Self::Op>;
    /// Applies `op` to the real machine and to the model and compares every observable.
    /// Ok(Some(m')) = agreed; Ok(None) = transition not enabled; Err = divergence (recorded,
    /// successors pruned because the model no longer tracks the code).
    /// `soft` collects disagreements after which the model still tracks the code (e.g. a failing
    /// read): they are recorded but exploration continues below the transition.
    fn apply(&self, sut: &mut Axecutor, m: &Self::M, op: &Self::Op, soft: &mut Vec<Divergence>) -> Result<Option<Self::M>, Divergence>;
    /// model-free invariants evaluated in every reached state
    fn invariants(&self, _sut: &Axecutor, _m: &Self::M) -> Vec<Divergence> {
        vec![]
    }
    /// implementation fingerprint used for state identity (never coarser than what the
    /// property can observe)
    fn fingerprint(&self, sut: &Axecutor) -> u64 {
        crate::emu::fingerprint(sut)
    }
    fn op_json(&self, op: &Self::Op) -> Value {
        serde_json::to_value(op).unwrap_or(Value::Null)
    }
    /// key under which a hang / process death on this transition is recorded and masked
    fn crash_class(&self, m: &Self::M, op: &Self::Op) -> String;
    /// transitions that need a breadcrumb (may hang or kill the process)
    fn risky(&self, _op: &Self::Op) -> bool {
        true
    }
}

pub struct StState<S: Spec> {
    pub sut: Arc<Sut>,
    pub model: Arc<S::M>,
    /// hash of the model this state stands for (for a state at the depth bound `model`, `sut`
    /// and `hist` are the parent's: such a state is never expanded, and not materialising it is
    /// what keeps the frontier - the bulk of all states - out of memory)
    pub mh: u64,
    pub hist: Arc<Vec<S::Op>>,
    pub depth: usize,
    pub init: usize,
    pub fp: u64,
}

fn model_hash<M: Hash>(m: &M) -> u64 {
    // fixed keys: the same model hashes the same in every worker and every run
    use std::hash::BuildHasher;
    let mut h = ahash::RandomState::with_seeds(0x243f_6a88_85a3_08d3, 0x1319_8a2e_0370_7344, 0xa409_3822_299f_31d0, 0x082e_fa98_ec4e_6c89).build_hasher();
    m.hash(&mut h);
    h.finish()
}

impl<S: Spec> Clone for StState<S> {
    fn clone(&self) -> Self {
        StState {
            sut: Arc::clone(&self.sut),
            model: Arc::clone(&self.model),
            mh: self.mh,
            hist: Arc::clone(&self.hist),
            depth: self.depth,
            init: self.init,
            fp: self.fp,
        }
    }
}
impl<S: Spec> PartialEq for StState<S> {
    fn eq(&self, o: &Self) -> bool {
        // implementation fingerprint (64 bits) and model hash (64 bits, independent hasher)
        self.fp == o.fp && self.depth == o.depth && self.mh == o.mh
    }
}
impl<S: Spec> Hash for StState<S> {
    fn hash<H: Hasher>(&self, h: &mut H) {
        // implementation fingerprint + model + depth (depth in the key keeps a depth-bounded
        // parallel search deterministic: a state is expanded at every depth it is reached at)
        self.fp.hash(h);
        self.mh.hash(h);
        self.depth.hash(h);
    }
}
impl<S: Spec> Debug for StState<S> {
    fn fmt(&self, f: &mut std::fmt::Formatter<'_>) -> std::fmt::Result {
        write!(f, "St{{init {} fp {:#x} depth {} model-hash {:#x}}}", self.init, self.fp, self.depth, self.mh)
    }
}

pub struct Shared {
    pub findings: Mutex<Findings>,
    pub transitions: AtomicU64,
    pub agreed: AtomicU64,
    pub disabled: AtomicU64,
    pub ctx: Mutex<*mut WorkerCtx>,
    pub masked: BTreeSet<String>,
    pub masked_hits: AtomicU64,
    pub op_outcomes: Mutex<std::collections::BTreeMap<String, [u64; 2]>>,
    pub samples: Mutex<Vec<Value>>,
    pub frontier: Mutex<Vec<(usize, Vec<Value>, u64)>>,
}
unsafe impl Send for Shared {}
unsafe impl Sync for Shared {}

pub struct StModel<S: Spec> {
    pub spec: Arc<S>,
    pub shared: Arc<Shared>,
    pub max_depth: usize,
    pub inits: Vec<(String, Arc<Sut>, S::M)>,
}

impl<S: Spec> StModel<S> {
    fn record(&self, d: Divergence, hist: &[S::Op], op: Option<&S::Op>, init: usize) {
        let mut h: Vec<Value> = hist.iter().map(|o| self.spec.op_json(o)).collect();
        if let Some(o) = op {
            h.push(self.spec.op_json(o));
        }
        let witness = json!({"engine": "stexp", "init": self.inits[init].0, "init_index": init, "history": h});
        let mut f = self.shared.findings.lock().unwrap();
        let is_new = !f.map.contains_key(&d.key);
        let fnd = Finding {
            key: d.key.clone(),
            what: d.what,
            witness,
            count: 1,
        };
        f.merge_one(d.key.clone(), fnd);
        if is_new {
            let e = &f.map[&d.key];
            let v = json!({"early_finding": {"key": e.key, "what": e.what, "witness": e.witness, "count": 0}});
            let mut c = self.shared.ctx.lock().unwrap();
            unsafe {
                (**c).emit(&v);
                (**c).flush();
            }
        }
    }
}

impl<S: Spec> Model for StModel<S> {
    type State = StState<S>;
    type Action = S::Op;

    fn init_states(&self) -> Vec<Self::State> {
        self.inits
            .iter()
            .enumerate()
            .map(|(k, (_l, sut, m))| StState {
                sut: Arc::clone(sut),
                model: Arc::new(m.clone()),
                mh: model_hash(m),
                hist: Arc::new(vec![]),
                depth: 0,
                init: k,
                fp: self.spec.fingerprint(&sut.0) ^ (k as u64).wrapping_mul(0x9e3779b97f4a7c15),
            })
            .collect()
    }

    fn actions(&self, s: &Self::State, actions: &mut Vec<Self::Action>) {
        if s.depth >= self.max_depth {
            return;
        }
        actions.extend(self.spec.ops(&s.model, s.depth));
    }

    fn next_state(&self, s: &Self::State, op: Self::Action) -> Option<Self::State> {
        let cls = self.spec.crash_class(&s.model, &op);
        if self.shared.masked.contains(&cls) {
            self.shared.masked_hits.fetch_add(1, Ordering::Relaxed);
            return None;
        }
        if self.spec.risky(&op) {
            let mut h: Vec<Value> = s.hist.iter().map(|o| self.spec.op_json(o)).collect();
            h.push(self.spec.op_json(&op));
            let desc = json!({"class": cls, "init": s.init, "history": h}).to_string();
            let mut c = self.shared.ctx.lock().unwrap();
            unsafe {
                (**c).describe(&desc);
                (**c).want(0);
            }
        }
        let tcount = self.shared.transitions.fetch_add(1, Ordering::Relaxed);
        if tcount & 0x3FF == 0 {
            let mut c = self.shared.ctx.lock().unwrap();
            unsafe { (**c).beat() };
        }
        let mut sut = s.sut.0.clone();
        let mut soft: Vec<Divergence> = vec![];
        let r = crate::emu::guarded(|| self.spec.apply(&mut sut, &s.model, &op, &mut soft));
        for d in soft {
            self.record(d, &s.hist, Some(&op), s.init);
        }
        let kind = format!("{:?}", op).split(|c: char| !c.is_alphanumeric() && c != '_').next().unwrap_or("").to_string();
        match r {
            Err(p) => {
                // a panic escaping the spec's own guarded calls
                self.record(
                    div(format!("{kind}|panic@{}", p.tag()), format!("panic: {}", crate::emu::first_line(&p.msg))),
                    &s.hist,
                    Some(&op),
                    s.init,
                );
                None
            }
            Ok(Err(d)) => {
                self.record(d, &s.hist, Some(&op), s.init);
                None
            }
            Ok(Ok(None)) => {
                self.shared.disabled.fetch_add(1, Ordering::Relaxed);
                None
            }
            Ok(Ok(Some(m2))) => {
                self.shared.agreed.fetch_add(1, Ordering::Relaxed);
                let mut pruned = false;
                for d in self.spec.invariants(&sut, &m2) {
                    self.record(d, &s.hist, Some(&op), s.init);
                    pruned = true;
                }
                if pruned {
                    return None;
                }
                let mut hist = (*s.hist).clone();
                hist.push(op);
                let fp = self.spec.fingerprint(&sut) ^ (s.init as u64).wrapping_mul(0x9e3779b97f4a7c15);
                if hist.len() == self.max_depth {
                    let mut fr = self.shared.frontier.lock().unwrap();
                    if fr.len() < 2000 {
                        fr.push((s.init, hist.iter().map(|o| self.spec.op_json(o)).collect(), fp));
                    }
                }
                {
                    let mut sm = self.shared.samples.lock().unwrap();
                    if sm.len() < 3 && hist.len() == self.max_depth.min(3) {
                        sm.push(json!({"init": self.inits[s.init].0, "history": hist.iter().map(|o| self.spec.op_json(o)).collect::<Vec<_>>()}));
                    }
                }
                let mh = model_hash(&m2);
                if hist.len() >= self.max_depth {
                    // at the depth bound: checked, counted, never expanded - keep the key only
                    return Some(StState {
                        sut: Arc::clone(&s.sut),
                        model: Arc::clone(&s.model),
                        mh,
                        hist: Arc::clone(&s.hist),
                        depth: s.depth + 1,
                        init: s.init,
                        fp,
                    });
                }
                Some(StState {
                    sut: Arc::new(Sut(sut)),
                    model: Arc::new(m2),
                    mh,
                    hist: Arc::new(hist),
                    depth: s.depth + 1,
                    init: s.init,
                    fp,
                })
            }
        }
    }

    fn properties(&self) -> Vec<Property<Self>> {
        vec![Property::always("explored", |_, _| true)]
    }
}

pub struct StOutcome {
    pub findings: Findings,
    pub states: u64,
    pub generated: u64,
    pub transitions: u64,
    pub agreed: u64,
    pub disabled: u64,
    pub max_depth: u64,
    pub masked: Vec<String>,
    pub masked_hits: u64,
    pub restarts: u64,
    pub validated: u64,
    pub samples: Vec<Value>,
    pub capped: bool,
}

/// Replays a history from scratch on a fresh machine (no clone chain); returns the
/// fingerprint reached or the key of the first divergence.
pub fn replay_history<S: Spec>(spec: &S, init: usize, hist: &[S::Op]) -> Result<u64, String> {
    let inits = spec.inits();
    let (_l, mut sut, mut m) = inits.into_iter().nth(init).ok_or("bad init index")?;
    let mut softs: Vec<String> = vec![];
    // an initial machine can break an invariant by itself (its construction goes through the
    // subject too): the recorded history is then empty
    if let Some(d) = spec.invariants(&sut, &m).into_iter().next() {
        return Err(d.key);
    }
    for op in hist {
        let mut soft: Vec<Divergence> = vec![];
        let r = crate::emu::guarded(|| spec.apply(&mut sut, &m, op, &mut soft));
        softs.extend(soft.into_iter().map(|d| d.key));
        match r {
            Err(p) => {
                let kind = format!("{:?}", op).split(|c: char| !c.is_alphanumeric() && c != '_').next().unwrap_or("").to_string();
                return Err(format!("{kind}|panic@{}", p.tag()));
            }
            Ok(Err(d)) => return Err(d.key),
            Ok(Ok(None)) => {
                // a transition that changes nothing may still have reported (soft) divergences
                if !softs.is_empty() {
                    return Err(softs.join("\n"));
                }
                return Err("disabled".into());
            }
            Ok(Ok(Some(m2))) => {
                if let Some(d) = spec.invariants(&sut, &m2).into_iter().next() {
                    return Err(d.key);
                }
                m = m2;
            }
        }
    }
    if !softs.is_empty() {
        return Err(softs.join("\n"));
    }
    Ok(spec.fingerprint(&sut) ^ (init as u64).wrapping_mul(0x9e3779b97f4a7c15))
}

/// Like `replay_history` but ignores soft divergences (used to validate clone chains).
pub fn replay_fp<S: Spec>(spec: &S, init: usize, hist: &[S::Op]) -> Result<u64, String> {
    let inits = spec.inits();
    let (_l, mut sut, mut m) = inits.into_iter().nth(init).ok_or("bad init index")?;
    for op in hist {
        let mut soft: Vec<Divergence> = vec![];
        match crate::emu::guarded(|| spec.apply(&mut sut, &m, op, &mut soft)) {
            Ok(Ok(Some(m2))) => m = m2,
            Ok(Ok(None)) => return Err("disabled".into()),
            Ok(Err(d)) => return Err(d.key),
            Err(p) => return Err(format!("panic@{}", p.tag())),
        }
    }
    Ok(spec.fingerprint(&sut) ^ (init as u64).wrapping_mul(0x9e3779b97f4a7c15))
}

/// Runs the search inside a supervised worker; a transition that hangs or kills the process is
/// recorded under its crash class, masked, and the search restarted.
pub fn run_stexp<S: Spec>(
    spec: Arc<S>,
    max_depth: usize,
    threads: usize,
    alloc_limit: usize,
    wall_cap_secs: u64,
) -> StOutcome {
    let parse_op = |v: &Value| -> Option<S::Op> { serde_json::from_value(v.clone()).ok() };
    let mut masked: BTreeSet<String> = BTreeSet::new();
    let mut findings = Findings::new();
    let mut restarts = 0u64;
    let t0 = std::time::Instant::now();
    loop {
        let opts = SupOpts {
            nshards: 1,
            hang_secs: 5,
            alloc_limit,
            wall_cap_secs,
            ..Default::default()
        };
        let mut summary: Option<Value> = None;
        let masked_now = masked.clone();
        let spec2 = Arc::clone(&spec);
        let res = sup::run_sharded(
            &opts,
            |ctx| {
                if ctx.resume_after.is_some() {
                    // restarted by the supervisor after a death: the outer loop re-runs instead
                    return;
                }
                let inits: Vec<(String, Arc<Sut>, S::M)> = spec2
                    .inits()
                    .into_iter()
                    .map(|(l, a, m)| (l, Arc::new(Sut(a)), m))
                    .collect();
                let shared = Arc::new(Shared {
                    findings: Mutex::new(Findings::new()),
                    transitions: AtomicU64::new(0),
                    agreed: AtomicU64::new(0),
                    disabled: AtomicU64::new(0),
                    ctx: Mutex::new(ctx as *mut WorkerCtx),
                    masked: masked_now.clone(),
                    masked_hits: AtomicU64::new(0),
                    op_outcomes: Mutex::new(Default::default()),
                    samples: Mutex::new(vec![]),
                    frontier: Mutex::new(vec![]),
                });
                ctx.want(0);
                let model = StModel {
                    spec: Arc::clone(&spec2),
                    shared: Arc::clone(&shared),
                    max_depth,
                    inits,
                };
                // invariants of the initial states
                for (k, (_l, sut, m)) in model.inits.iter().enumerate() {
                    for d in spec2.invariants(&sut.0, m) {
                        model.record(d, &[], None, k);
                    }
                }
                let checker = model
                    .checker()
                    .threads(threads)
                    .target_max_depth(max_depth + 2)
                    .timeout(std::time::Duration::from_secs(wall_cap_secs))
                    .spawn_bfs()
                    .join();
                let done = checker.is_done();
                // validate the clone chain: frontier histories replayed from scratch
                let fr = shared.frontier.lock().unwrap().clone();
                let mut validated = 0u64;
                let mut mismatches = vec![];
                for (init, hist, fp) in fr.iter() {
                    let ops: Option<Vec<S::Op>> = hist.iter().map(|v| parse_op(v)).collect();
                    if let Some(ops) = ops {
                        match replay_fp(&*spec2, *init, &ops) {
                            Ok(fp2) if fp2 == *fp => validated += 1,
                            other => mismatches.push(format!("{hist:?}: chain {fp:#x} replay {other:?}")),
                        }
                    }
                }
                let f = shared.findings.lock().unwrap().to_json();
                let v = json!({
                    "summary": true,
                    "findings": f,
                    "states": checker.unique_state_count(),
                    "generated": checker.state_count(),
                    "max_depth": checker.max_depth(),
                    "transitions": shared.transitions.load(Ordering::Relaxed),
                    "agreed": shared.agreed.load(Ordering::Relaxed),
                    "disabled": shared.disabled.load(Ordering::Relaxed),
                    "masked_hits": shared.masked_hits.load(Ordering::Relaxed),
                    "validated": validated,
                    "replay_mismatches": mismatches,
                    "samples": *shared.samples.lock().unwrap(),
                    "done": done,
                });
                let mut c = shared.ctx.lock().unwrap();
                unsafe {
                    (**c).idle();
                    (**c).emit(&v);
                }
            },
            &mut |_s, v: Value| {
                if !v["early_finding"].is_null() {
                    let mut a = Findings::from_json(&json!([v["early_finding"].clone()]));
                    for f in a.map.values_mut() {
                        f.count = 0;
                    }
                    findings.merge(a);
                } else if v["summary"] == true {
                    summary = Some(v);
                }
            },
        );
        if let Some(e) = res.events.first() {
            // the transition in flight hung or killed the process
            let d: Value = serde_json::from_str(&e.desc).unwrap_or(json!({}));
            let cls = d["class"].as_str().unwrap_or("").to_string();
            if cls.is_empty() || masked.contains(&cls) {
                crate::common::machinery_error(&format!(
                    "stexp worker died ({}) without an attributable transition: {}",
                    e.how, e.desc
                ));
            }
            let how = e.how.split(':').next().unwrap_or("").to_string();
            let key = format!("{cls}|{how}");
            findings.merge_one(
                key.clone(),
                Finding {
                    key,
                    what: format!("transition {} the process ({})", if how == "hang" { "hangs" } else { "kills" }, e.how),
                    witness: json!({"engine": "stexp-crash", "class": cls, "how": e.how, "init_index": d["init"], "history": d["history"]}),
                    count: 1,
                },
            );
            masked.insert(cls);
            restarts += 1;
            if restarts > 40 {
                crate::common::machinery_error("too many stexp restarts");
            }
            continue;
        }
        let s = match summary {
            Some(s) => s,
            None => crate::common::machinery_error("stexp worker returned no summary"),
        };
        if let Some(mm) = s["replay_mismatches"].as_array() {
            if !mm.is_empty() {
                crate::common::machinery_error(&format!(
                    "clone-chain state differs from state replayed from scratch: {}",
                    mm[0]
                ));
            }
        }
        findings.merge(Findings::from_json(&s["findings"]));
        // counts of early findings were zeroed; the summary carries the real counts
        let capped = !s["done"].as_bool().unwrap_or(false) || t0.elapsed().as_secs() > wall_cap_secs;
        return StOutcome {
            findings,
            states: s["states"].as_u64().unwrap_or(0),
            generated: s["generated"].as_u64().unwrap_or(0),
            transitions: s["transitions"].as_u64().unwrap_or(0),
            agreed: s["agreed"].as_u64().unwrap_or(0),
            disabled: s["disabled"].as_u64().unwrap_or(0),
            max_depth: s["max_depth"].as_u64().unwrap_or(0),
            masked: masked.into_iter().collect(),
            masked_hits: s["masked_hits"].as_u64().unwrap_or(0),
            restarts,
            validated: s["validated"].as_u64().unwrap_or(0),
            samples: s["samples"].as_array().cloned().unwrap_or_default(),
            capped,
        };
    }
}

pub fn st_evidence(run: &mut crate::common::Run, out: &StOutcome, depth: usize, alphabet_note: &str) {
    run.findings.merge(out.findings.clone());
    run.cov("states", json!(out.states));
    run.cov("transitions", json!(out.transitions));
    run.cov("traces_validated_against_impl", json!(out.transitions));
    run.cov("evaluations", json!(out.transitions));
    run.cov("distinct_nontrivial", json!(out.states));
    run.cov("rule", json!("a state = (canonical fingerprint of the live machine, reference model, depth); every transition applies one operation of the alphabet to a clone of the real machine and to the model and compares all observables; distinct_nontrivial = unique states found by the search"));
    run.cov("exhaustive", json!(!out.capped));
    run.cov("depth_bound", json!(depth));
    run.cov("alphabet", json!(alphabet_note));
    run.cov("states_generated_incl_repeats", json!(out.generated));
    run.cov("transitions_agreed", json!(out.agreed));
    run.cov("transitions_not_enabled", json!(out.disabled));
    run.cov("max_depth_reached", json!(out.max_depth));
    run.cov("masked_crash_classes", json!(out.masked));
    run.cov("masked_transitions_skipped", json!(out.masked_hits));
    run.cov("search_restarts_after_hang_or_death", json!(out.restarts));
    run.cov("frontier_histories_replayed_from_scratch", json!(out.validated));
    let mut samples = out.samples.clone();
    if samples.is_empty() {
        samples.push(json!("no history of sample length reached"));
    }
    run.cov("samples", json!(samples));
    if out.capped {
        run.cov("cap_hit", json!("wall-clock cap inside the search"));
    }
}

/// Confirms stexp witnesses by replaying the recorded history from scratch.
pub fn confirm_stexp<S: Spec>(spec: &S, w: &Value) -> Result<Vec<String>, String> {
    let parse_op = |v: &Value| -> Option<S::Op> { serde_json::from_value(v.clone()).ok() };
    if w["engine"] == "stexp-crash" {
        // reproduced by construction: the class was masked after the supervisor saw the death;
        // re-run it in isolation
        let cls = w["class"].as_str().unwrap_or("").to_string();
        let how = w["how"].as_str().unwrap_or("").split(':').next().unwrap_or("").to_string();
        let init = w["init_index"].as_u64().unwrap_or(0) as usize;
        let ops: Option<Vec<S::Op>> = w["history"].as_array().ok_or("no history")?.iter().map(|v| parse_op(v)).collect();
        let ops = ops.ok_or("history does not parse")?;
        let opts = SupOpts {
            nshards: 1,
            ..Default::default()
        };
        let (h, _m) = sup::run_single(&opts, 0, 6, |ctx| {
            if ctx.want(0) {
                let _ = replay_history(spec, init, &ops);
            }
        });
        let h = h.split(':').next().unwrap_or("").to_string();
        // reproduces = the history alone does not return either (the manner of death of a
        // runaway loop depends on which guard fires first)
        return Ok(if h != "ok" { vec![format!("{cls}|{how}")] } else { vec![] });
    }
    let init = w["init_index"].as_u64().ok_or("no init index")? as usize;
    let ops: Option<Vec<S::Op>> = w["history"].as_array().ok_or("no history")?.iter().map(|v| parse_op(v)).collect();
    let ops = ops.ok_or("history does not parse")?;
    match replay_history(spec, init, &ops) {
        Ok(_) => Ok(vec![]),
        Err(k) => Ok(k.split('\n').map(|s| s.to_string()).collect()),
    }
}
