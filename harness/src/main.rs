//! axmc — bounded exhaustive exploration of xarantolus/ax (see /verif/DESIGN.md).

mod c07;
mod c08;
mod c09;
mod c10;
mod c11;
mod c12;
mod c13;
mod c14;
mod c15;
mod c16;
mod c17;
mod c18;
mod c19;
mod c20;
mod common;
mod elfgen;
mod emu;
mod enumrun;
mod natdiff;
mod native;
mod props_nat;
mod stexp;
mod sup;
mod sweeps;
mod tmpl;

use common::Tier;

#[global_allocator]
static GLOBAL: sup::GuardAlloc = sup::GuardAlloc;

fn usage() -> ! {
    eprintln!("usage: axmc run <ID> [--tier quick|thorough] | axmc replay <ID> <path> | axmc census-baseline");
    std::process::exit(2);
}

fn main() {
    common::init_embedded();
    emu::install_panic_hook();
    let args: Vec<String> = std::env::args().collect();
    if args.len() < 2 {
        usage();
    }
    let mut tier = match std::env::var("VERIF_TIER").as_deref() {
        Ok("thorough") => Tier::Thorough,
        _ => Tier::Quick,
    };
    let mut k = 2;
    let mut pos: Vec<String> = vec![];
    while k < args.len() {
        if args[k] == "--tier" && k + 1 < args.len() {
            tier = if args[k + 1] == "thorough" { Tier::Thorough } else { Tier::Quick };
            k += 2;
        } else {
            pos.push(args[k].clone());
            k += 1;
        }
    }
    let code = match args[1].as_str() {
        "run" => {
            let id = pos.first().cloned().unwrap_or_else(|| usage());
            run_prop(&id, tier)
        }
        "replay" => {
            if pos.len() < 2 {
                usage();
            }
            replay(&pos[0], &pos[1])
        }
        "census-baseline" => props_nat::census_baseline(),
        "c20-child" => {
            if pos.len() < 2 {
                usage();
            }
            c20::child(pos[0].parse().unwrap_or(3), &pos[1])
        }
        "c20-one" => {
            if pos.len() < 3 {
                usage();
            }
            c20::one_case(pos[0].parse().unwrap_or(3), pos[1].parse().unwrap_or(0), pos[2] == "1")
        }
        "bench" => {
            use ax_x86::axecutor::Axecutor;
            // 67 8b 03 = mov eax,[ebx] (panics on the pinned tree); 8b 03 = mov eax,[rbx]
            for code in [vec![0x67u8, 0x8b, 0x03], vec![0x8b, 0x03], vec![0x90]] {
                let t = std::time::Instant::now();
                let n = 20000;
                let mut outs = std::collections::BTreeMap::new();
                for _ in 0..n {
                    let mut ax = Axecutor::new(&code, 0x1000, 0x1000).unwrap();
                    ax.reg_write_64(ax_x86::state::registers::SupportedRegister::RBX, 0x1000).unwrap();
                    let o = emu::step(&mut ax);
                    *outs.entry(o.class()).or_insert(0) += 1;
                }
                println!("{:02x?}: {:?} per step, {:?}", code, t.elapsed() / n, outs);
            }
            0
        }
        _ => usage(),
    };
    std::process::exit(code);
}

fn run_prop(id: &str, tier: Tier) -> i32 {
    match id {
        "C01" => props_nat::c01(tier),
        "C02" => props_nat::c02(tier),
        "C03" => props_nat::c03(tier),
        "C04" => props_nat::c04(tier),
        "C05" => props_nat::c05(tier),
        "C06" => props_nat::c06(tier),
        "C07" => c07::run(tier),
        "C08" => c08::run(tier),
        "C09" => c09::run(tier),
        "C10" => c10::run(tier),
        "C11" => c11::run(tier),
        "C12" => c12::run(tier),
        "C13" => c13::run(tier),
        "C14" => c14::run(tier),
        "C15" => c15::run(tier),
        "C16" => c16::run(tier),
        "C17" => c17::run(tier),
        "C18" => c18::run(tier),
        "C19" => c19::run(tier),
        "C20" => c20::run(tier),
        _ => common::machinery_error(&format!("no check registered for {id}")),
    }
}

fn replay(id: &str, path: &str) -> i32 {
    let txt = match std::fs::read_to_string(path) {
        Ok(t) => t,
        Err(e) => common::machinery_error(&format!("cannot read {path}: {e}")),
    };
    let v: serde_json::Value = match serde_json::from_str(&txt) {
        Ok(v) => v,
        Err(e) => common::machinery_error(&format!("{path}: {e}")),
    };
    let key = v["key"].as_str().unwrap_or("").to_string();
    let w = &v["witness"];
    let keys = match w["engine"].as_str().unwrap_or("") {
        "natdiff" => sweeps::confirm_nat(w),
        "rsp-rule" => Ok(props_nat::rsp_rule_replay(w)),
        _ => {
            // every other engine replays through the property's own confirmation function
            std::env::set_var("AXMC_REPLAY", path);
            let tier = if v["tier"] == "thorough" { Tier::Thorough } else { Tier::Quick };
            return run_prop(id, tier);
        }
    };
    match keys {
        Ok(ks) => {
            println!("observed keys: {ks:?}");
            if ks.iter().any(|k| *k == key) {
                println!("VIOLATION property={id} replay={path}");
                1
            } else {
                println!("recorded key {key} did not reproduce");
                0
            }
        }
        Err(e) => common::machinery_error(&e),
    }
}
