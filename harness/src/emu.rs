//! Thin layer over the real `Axecutor`: stepping under `catch_unwind`, full-state fingerprints.

use crate::common::Fp;
use ax_x86::axecutor::Axecutor;
use ax_x86::state::registers::SupportedRegister as SR;
use std::cell::RefCell;
use std::future::Future;
use std::panic::{catch_unwind, AssertUnwindSafe};
use std::pin::Pin;
use std::task::{Context, Poll, Waker};

pub const GPR64: [SR; 16] = [
    SR::RAX,
    SR::RCX,
    SR::RDX,
    SR::RBX,
    SR::RSP,
    SR::RBP,
    SR::RSI,
    SR::RDI,
    SR::R8,
    SR::R9,
    SR::R10,
    SR::R11,
    SR::R12,
    SR::R13,
    SR::R14,
    SR::R15,
];
pub const GPR_NAMES: [&str; 16] = [
    "RAX", "RCX", "RDX", "RBX", "RSP", "RBP", "RSI", "RDI", "R8", "R9", "R10", "R11", "R12", "R13",
    "R14", "R15",
];
pub const XMM: [SR; 16] = [
    SR::XMM0,
    SR::XMM1,
    SR::XMM2,
    SR::XMM3,
    SR::XMM4,
    SR::XMM5,
    SR::XMM6,
    SR::XMM7,
    SR::XMM8,
    SR::XMM9,
    SR::XMM10,
    SR::XMM11,
    SR::XMM12,
    SR::XMM13,
    SR::XMM14,
    SR::XMM15,
];

#[derive(Clone, Debug, PartialEq, Eq)]
pub struct PanicInfo {
    pub loc: String,
    pub msg: String,
}

thread_local! {
    static LAST_PANIC: RefCell<Option<PanicInfo>> = RefCell::new(None);
}

/// Installs a panic hook that records `file:line` + message per thread and prints nothing.
pub fn install_panic_hook() {
    std::panic::set_hook(Box::new(|info| {
        let loc = info
            .location()
            .map(|l| {
                let f = l.file();
                // normalise to a repo-relative path
                let f = f.strip_prefix("/repo/").unwrap_or(f);
                format!("{}:{}", f, l.line())
            })
            .unwrap_or_else(|| "?".into());
        let msg = if let Some(s) = info.payload().downcast_ref::<&str>() {
            s.to_string()
        } else if let Some(s) = info.payload().downcast_ref::<String>() {
            s.clone()
        } else {
            "<non-string panic>".to_string()
        };
        LAST_PANIC.with(|p| *p.borrow_mut() = Some(PanicInfo { loc, msg }));
    }));
}

/// Runs `f`, turning a panic into `Err(PanicInfo)`.
pub fn guarded<T>(f: impl FnOnce() -> T) -> Result<T, PanicInfo> {
    LAST_PANIC.with(|p| *p.borrow_mut() = None);
    match catch_unwind(AssertUnwindSafe(f)) {
        Ok(v) => Ok(v),
        Err(_) => Err(LAST_PANIC.with(|p| p.borrow_mut().take()).unwrap_or(PanicInfo {
            loc: "?".into(),
            msg: "?".into(),
        })),
    }
}

/// Native hooks never suspend, so every future of the subject is ready on first poll.
pub fn block_on<F: Future>(mut fut: F) -> F::Output {
    let mut fut = unsafe { Pin::new_unchecked(&mut fut) };
    let mut cx = Context::from_waker(Waker::noop());
    for _ in 0..1000 {
        if let Poll::Ready(v) = fut.as_mut().poll(&mut cx) {
            return v;
        }
    }
    panic!("axmc: future of the subject stayed pending (native hooks cannot suspend)");
}

#[derive(Clone, Debug, PartialEq, Eq)]
pub enum StepOut {
    Ok(bool),
    Err(String),
    Panic(PanicInfo),
}

impl PanicInfo {
    /// Stable identification of a panic site for finding keys: file (no line, lines move with
    /// every edit) + the message with digits and quoted values normalised.
    pub fn tag(&self) -> String {
        let file = self.loc.rsplit_once(':').map(|x| x.0).unwrap_or(&self.loc);
        // standard-library sites: drop the toolchain-specific prefix
        let file = match file.find("/library/") {
            Some(p) if file.starts_with("/rustc/") => &file[p + 1..],
            _ => file,
        };
        let mut msg = String::new();
        let mut last_hash = false;
        let fl = first_line(&self.msg);
        let head = match fl.split_once(": ") {
            Some((h, _)) if h.len() >= 10 => h.to_string(),
            _ => fl,
        };
        for ch in head.chars() {
            if ch.is_ascii_digit() {
                if !last_hash {
                    msg.push('#');
                }
                last_hash = true;
            } else {
                last_hash = false;
                msg.push(if ch == '|' { '/' } else { ch });
            }
            if msg.len() >= 60 {
                break;
            }
        }
        format!("{file}({})", msg.trim())
    }
}

impl StepOut {
    pub fn class(&self) -> &'static str {
        match self {
            StepOut::Ok(_) => "ok",
            StepOut::Err(_) => "err",
            StepOut::Panic(_) => "panic",
        }
    }
    pub fn is_ok(&self) -> bool {
        matches!(self, StepOut::Ok(_))
    }
    pub fn brief(&self) -> String {
        match self {
            StepOut::Ok(b) => format!("Ok({b})"),
            StepOut::Err(e) => format!("Err({})", first_line(e)),
            StepOut::Panic(p) => format!("Panic@{}({})", p.loc, first_line(&p.msg)),
        }
    }
}

pub fn first_line(s: &str) -> String {
    let l = s.lines().next().unwrap_or("");
    if l.len() > 160 {
        format!("{}…", &l[..l.char_indices().take_while(|(i, _)| *i < 160).last().map(|(i, c)| i + c.len_utf8()).unwrap_or(0)])
    } else {
        l.to_string()
    }
}

pub fn step(ax: &mut Axecutor) -> StepOut {
    match guarded(|| block_on(ax.step())) {
        Ok(Ok(b)) => StepOut::Ok(b),
        Ok(Err(e)) => StepOut::Err(e.to_string()),
        Err(p) => StepOut::Panic(p),
    }
}

pub fn execute(ax: &mut Axecutor) -> Result<Result<(), String>, PanicInfo> {
    guarded(|| block_on(ax.execute()).map_err(|e| e.to_string()))
}

/// Message classes of by-design rejections of a form (DESIGN §3.4 "implemented").
pub fn is_unimplemented_msg(e: &str) -> bool {
    e.contains("Executed unimplemented opcode")
        || e.contains("Invalid instruction code")
        || e.contains("is not supported")
        || e.contains("Unsupported mnemonic")
        || e.contains("There's no prefix for encoding this")
        || e.contains("unimplemented operand kind")
        || e.contains("cannot convert")
}

pub fn gprs(ax: &Axecutor) -> [u64; 16] {
    let mut r = [0u64; 16];
    for (i, reg) in GPR64.iter().enumerate() {
        r[i] = ax.reg_read_64(*reg).unwrap();
    }
    r
}
pub fn xmms(ax: &Axecutor) -> [u128; 16] {
    let mut r = [0u128; 16];
    for (i, reg) in XMM.iter().enumerate() {
        r[i] = ax.reg_read_128(*reg).unwrap();
    }
    r
}
pub fn rip(ax: &Axecutor) -> u64 {
    ax.reg_read_64(SR::RIP).unwrap()
}

/// Canonical fingerprint of everything observable about a machine (sorted, order-free).
/// `normalise_fds`: replace pipe descriptor numbers in the syscall state by their rank.
pub fn fingerprint(ax: &Axecutor) -> u64 {
    let mut f = Fp::new();
    for (n, v) in ax.verif_registers_raw() {
        f.str(&n);
        f.u64(v);
    }
    for x in xmms(ax) {
        f.u64(x as u64);
        f.u64((x >> 64) as u64);
    }
    f.u64(ax.verif_rflags());
    f.u64(ax.read_fs());
    f.u64(ax.read_gs());
    let mut areas = ax.verif_areas();
    areas.sort_by(|a, b| (a.start, a.length, &a.name).cmp(&(b.start, b.length, &b.name)));
    f.u64(areas.len() as u64);
    for a in &areas {
        f.u64(a.start);
        f.u64(a.length);
        f.u64(a.access as u64);
        f.str(a.name.as_deref().unwrap_or("\u{0}none"));
        f.bytes(&a.data);
    }
    f.u64(ax.verif_finished() as u64);
    f.u64(ax.verif_executed());
    f.u64(ax.verif_max_instructions().map(|v| v.wrapping_add(1)).unwrap_or(0));
    f.u64(ax.verif_code_end_addr());
    f.u64(ax.verif_stack_top());
    f.u64(ax.verif_hooks_running() as u64);
    for t in ax.verif_trace_entries() {
        f.u64(t.instr_ip);
        f.u64(t.target);
        f.u64(t.kind as u64);
        f.u64(t.level as u64);
        f.u64(t.count);
    }
    for c in ax.verif_call_stack_raw() {
        f.u64(c);
    }
    f.str(&sorted_lines(&ax.verif_hooks_display()));
    f.str(&canon_syscall_state(&ax.verif_syscall_state_debug()));
    for (a, n) in ax.verif_symbol_table() {
        f.u64(a);
        f.str(&n);
    }
    f.0
}

pub fn sorted_lines(s: &str) -> String {
    let mut l: Vec<&str> = s.lines().collect();
    l.sort();
    l.join("\n")
}

/// The Debug rendering of the syscall state contains HashMaps: sort the `k: v` items inside
/// every `{…}` so the string does not depend on iteration order.
pub fn canon_syscall_state(s: &str) -> String {
    // SyscallState { registered: [..], brk_start: N, brk_length: N, pipes_write_ends: {a: b, ..},
    //   pipes_read_ends: {..}, pipe_contents: {a: [..], ..} }
    let mut out = String::new();
    let b = s.as_bytes();
    let mut i = 0;
    while i < b.len() {
        if b[i] == b'{' && i > 0 && b[i - 1] != b' ' || (b[i] == b'{' && s[..i].ends_with(": ")) {
            // find matching brace
            let mut depth = 0;
            let mut j = i;
            while j < b.len() {
                if b[j] == b'{' {
                    depth += 1;
                } else if b[j] == b'}' {
                    depth -= 1;
                    if depth == 0 {
                        break;
                    }
                }
                j += 1;
            }
            let inner = &s[i + 1..j.min(s.len())];
            // split on top-level ", " (not inside [..])
            let mut items = vec![];
            let mut d = 0;
            let mut cur = String::new();
            for ch in inner.chars() {
                match ch {
                    '[' | '{' => {
                        d += 1;
                        cur.push(ch)
                    }
                    ']' | '}' => {
                        d -= 1;
                        cur.push(ch)
                    }
                    ',' if d == 0 => {
                        items.push(cur.trim().to_string());
                        cur = String::new();
                    }
                    _ => cur.push(ch),
                }
            }
            if !cur.trim().is_empty() {
                items.push(cur.trim().to_string());
            }
            items.sort();
            out.push('{');
            out.push_str(&items.join(", "));
            out.push('}');
            i = j + 1;
        } else {
            out.push(b[i] as char);
            i += 1;
        }
    }
    out
}

/// Background filler: distinct per register so that touching the wrong one is visible.
pub fn filler_gpr(k: usize) -> u64 {
    let s = crate::common::seed();
    (0x1111_1111_1111_1111u64.wrapping_mul(k as u64 + 1)) ^ 0x0f0e_0d0c_0b0a_0908 ^ s.wrapping_mul(0x9e3779b97f4a7c15)
}
pub fn filler_xmm(k: usize) -> u128 {
    let a = filler_gpr(k + 16) as u128;
    let b = filler_gpr(k + 32) as u128;
    (a << 64) | b
}
