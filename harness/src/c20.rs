//! C20 — execution is a deterministic function of the explicit inputs.

use crate::common::{Finding, Run, Tier};
use crate::emu::StepOut;
use ax_x86::axecutor::Axecutor;
use ax_x86::helpers::syscalls::Syscall;
use ax_x86::state::registers::SupportedRegister as SR;
use serde_json::{json, Value};

const BASE: u64 = 0x1000;
const STK: u64 = 0x20000;

const ITEMS: [(&str, &[u8]); 14] = [
    ("mov rax,0x1234", &[0x48, 0xC7, 0xC0, 0x34, 0x12, 0, 0]),
    ("add rax,rbx", &[0x48, 0x01, 0xD8]),
    ("adc rbx,rcx", &[0x48, 0x11, 0xCB]),
    ("push rax", &[0x50]),
    ("pop rbx", &[0x5B]),
    ("mov [rsp-16],rcx", &[0x48, 0x89, 0x4C, 0x24, 0xF0]),
    ("cmp rax,rbx; jne +0", &[0x48, 0x39, 0xD8, 0x75, 0x00]),
    ("call/ret pair", &[0xE8, 0x02, 0, 0, 0, 0xEB, 0x01, 0xC3]),
    ("brk(0) via handler", &[0x48, 0xC7, 0xC0, 12, 0, 0, 0, 0x48, 0xC7, 0xC7, 0, 0, 0, 0, 0x0F, 0x05]),
    ("xor edx,edx; div rcx", &[0x31, 0xD2, 0x48, 0xF7, 0xF1]),
    ("int3", &[0xCC]),
    // faulting accesses through a register: their error texts describe the machine (hints,
    // area lists, call stack) and are part of the compared result
    ("mov rax,[rbx]", &[0x48, 0x8B, 0x03]),
    ("mov [rbx],rcx", &[0x48, 0x89, 0x0B]),
    ("jmp rbx", &[0xFF, 0xE3]),
];

pub const VARIANTS: usize = 6;
const ALIAS: u64 = 0x0dea_d000;

fn vname(variant: usize) -> &'static str {
    match variant {
        0 | 1 => "A(all-registers-written)",
        2 | 3 => "B(only-rax-rbx-rcx-rsp-written)",
        4 => "C(all-registers-hold-one-value)",
        _ => "D(stack-and-strings-placed-by-init_stack_program_start)",
    }
}

pub fn n_cases(maxlen: usize) -> usize {
    let mut n = 0;
    for len in 1..=maxlen {
        n += ITEMS.len().pow(len as u32) * VARIANTS;
    }
    n
}

fn program(idx: usize, len: usize) -> (Vec<u8>, Vec<&'static str>) {
    let mut code = vec![];
    let mut names = vec![];
    let mut rem = idx;
    for _ in 0..len {
        let (n, b) = ITEMS[rem % ITEMS.len()];
        rem /= ITEMS.len();
        code.extend_from_slice(b);
        names.push(n);
    }
    code.push(0x90);
    (code, names)
}

/// variant 0/1: A (every register written) with rcx = 0 / 5; 2/3: B (only RAX RBX RCX RSP);
/// 4: C (every general-purpose register holds the same unmapped address, RSP excepted)
fn build(code: &[u8], variant: usize) -> Axecutor {
    let mut ax = Axecutor::new(code, BASE, BASE).unwrap();
    if variant != 5 {
        ax.mem_init_zero(STK, 0x200).unwrap();
    }
    if variant < 2 || variant >= 4 {
        for k in 0..16 {
            ax.reg_write_64(crate::emu::GPR64[k], if variant == 4 { ALIAS } else { 0x100 + k as u64 }).unwrap();
            ax.reg_write_128(crate::emu::XMM[k], 0x200 + k as u128).unwrap();
        }
    }
    if variant != 4 {
        ax.reg_write_64(SR::RAX, 7).unwrap();
        ax.reg_write_64(SR::RBX, u64::MAX).unwrap();
        ax.reg_write_64(SR::RCX, if variant % 2 == 0 { 0 } else { 5 }).unwrap();
    }
    if variant == 5 {
        // every placement decision is the library's: three strings and the stack, each of
        // which first collides with the code at 0x1000
        ax.init_stack(0x40).unwrap();
        ax.init_stack_program_start(0x100, vec!["prog".to_string(), "x".to_string()], vec!["A=b".to_string()]).unwrap();
    } else {
        ax.reg_write_64(SR::RSP, STK + 0x100).unwrap();
    }
    ax.verif_set_rflags(0);
    ax.handle_syscalls(vec![Syscall::Brk, Syscall::Exit]).unwrap();
    ax.set_max_instructions(40);
    ax
}

#[derive(Clone, Debug, PartialEq, Eq)]
pub struct Digest {
    pub regs: u64,
    pub flags: u64,
    pub mem: u64,
    pub count: u64,
    pub trace: u64,
    pub result: String,
}

impl Digest {
    pub fn hash(&self) -> u64 {
        let mut f = crate::common::Fp::new();
        f.u64(self.regs);
        f.u64(self.flags);
        f.u64(self.mem);
        f.u64(self.count);
        f.u64(self.trace);
        f.str(&self.result);
        f.0
    }
    pub fn diff(&self, o: &Digest) -> &'static str {
        if self.result != o.result {
            "result-or-error-text"
        } else if self.regs != o.regs {
            "registers"
        } else if self.flags != o.flags {
            "flags"
        } else if self.mem != o.mem {
            "memory"
        } else if self.count != o.count {
            "instruction-count"
        } else if self.trace != o.trace {
            "trace-or-call-stack"
        } else {
            "none"
        }
    }
}

fn run_one(code: &[u8], variant: usize) -> Digest {
    let mut ax = build(code, variant);
    let result = match crate::emu::execute(&mut ax) {
        Ok(Ok(())) => "finished".to_string(),
        Ok(Err(e)) => format!("Err({e})"),
        Err(p) => format!("Panic({}: {})", p.loc, p.msg),
    };
    let mut regs = crate::common::Fp::new();
    let written: Vec<SR> = if variant < 2 || variant >= 4 {
        crate::emu::GPR64.to_vec()
    } else {
        vec![SR::RAX, SR::RBX, SR::RCX, SR::RSP]
    };
    for r in written {
        regs.u64(ax.reg_read_64(r).unwrap());
    }
    regs.u64(crate::emu::rip(&ax));
    if variant < 2 || variant >= 4 {
        for x in crate::emu::xmms(&ax) {
            regs.u64(x as u64);
            regs.u64((x >> 64) as u64);
        }
    }
    let mut mem = crate::common::Fp::new();
    let mut a = ax.verif_areas();
    a.sort_by_key(|x| (x.start, x.length));
    for x in &a {
        mem.u64(x.start);
        mem.u64(x.length);
        mem.u64(x.access as u64);
        mem.bytes(&x.data);
    }
    let mut tr = crate::common::Fp::new();
    for t in ax.verif_trace_entries() {
        tr.u64(t.instr_ip);
        tr.u64(t.target);
        tr.u64(t.kind as u64);
        tr.u64(t.level as u64);
        tr.u64(t.count);
    }
    for c in ax.verif_call_stack_raw() {
        tr.u64(c);
    }
    // the rendered forms are error-text material too
    if let Ok(Ok(s)) = crate::emu::guarded(|| ax.trace().map_err(|e| e.to_string())) {
        tr.str(&s);
    }
    if let Ok(Ok(s)) = crate::emu::guarded(|| ax.call_stack().map_err(|e| e.to_string())) {
        tr.str(&s);
    }
    Digest {
        regs: regs.0,
        flags: ax.verif_rflags(),
        mem: mem.0,
        count: ax.verif_executed(),
        trace: tr.0,
        result,
    }
}

/// Enumerates every case; `f(case index, names, variant, digests of 3 machines)`.
pub fn enumerate(maxlen: usize, mut f: impl FnMut(usize, &[&'static str], usize, &[Digest; 3], &[u8])) {
    let mut k = 0usize;
    for len in 1..=maxlen {
        let total = ITEMS.len().pow(len as u32);
        for idx in 0..total {
            let (code, names) = program(idx, len);
            for variant in 0..VARIANTS {
                let d = [run_one(&code, variant), run_one(&code, variant), run_one(&code, variant)];
                f(k, &names, variant, &d, &code);
                k += 1;
            }
        }
    }
}

/// Child mode (fresh process, fresh hash seeds): prints one digest hash per case.
pub fn child(maxlen: usize, out: &str) -> i32 {
    let mut v: Vec<u8> = vec![];
    enumerate(maxlen, |_k, _n, _v, d, _c| {
        v.extend_from_slice(&d[0].hash().to_le_bytes());
    });
    match std::fs::write(out, v) {
        Ok(()) => 0,
        Err(_) => 2,
    }
}

pub fn run(tier: Tier) -> i32 {
    let mut run = Run::new("C20", tier.clone());
    let maxlen = if tier.is_thorough() { 5 } else { 4 };
    // second process first (exec: fresh RandomState seeds, fresh thread RNG)
    let scratch = std::path::Path::new(crate::common::VERIF_ROOT).join(".build").join("scratch");
    let _ = std::fs::create_dir_all(&scratch);
    let outf = scratch.join(format!("c20.{}.bin", std::process::id()));
    let exe = std::env::current_exe().expect("own path");
    let st = std::process::Command::new(&exe)
        .args(["c20-child", &maxlen.to_string(), outf.to_str().unwrap()])
        .status();
    match st {
        Ok(s) if s.success() => {}
        other => crate::common::machinery_error(&format!("second-process pass failed: {other:?}")),
    }
    let other: Vec<u64> = std::fs::read(&outf)
        .unwrap_or_default()
        .chunks_exact(8)
        .map(|c| u64::from_le_bytes(c.try_into().unwrap()))
        .collect();
    let _ = std::fs::remove_file(&outf);
    let other_c = other.clone();
    let confirm_fn = move |w: &Value| -> Result<Vec<String>, String> {
        let other = &other_c;
        let k = w["case"].as_u64().ok_or("no case")? as usize;
        let mut keys = vec![];
        enumerate(maxlen, |kk, _names, variant, d, _code| {
            if kk == k {
                let vname = vname(variant);
                for m in 1..3 {
                    if d[m] != d[0] {
                        keys.push(format!("determinism|in-process|{vname}|{}", d[0].diff(&d[m])));
                    }
                }
                if other.get(k) != Some(&d[0].hash()) {
                    keys.push(format!("determinism|cross-process|{vname}"));
                }
            }
        });
        keys.sort();
        keys.dedup();
        // nondeterminism is the violation itself: which other observables differ may vary from
        // replay to replay; what must reproduce is the recorded disagreement
        let want = w["key"].as_str().unwrap_or("").to_string();
        keys.retain(|k| *k == want);
        Ok(keys)
    };
    if let Some(art) = crate::common::replay_artefact() {
        return crate::common::finish_replay("C20", &art, &|ws| ws.iter().map(|w| confirm_fn(w)).collect());
    }
    let mut cases = 0u64;
    let mut distinct = std::collections::HashSet::new();
    let mut samples: Vec<Value> = vec![];
    let mut findings = crate::common::Findings::new();
    let mut transitions = 0u64;
    enumerate(maxlen, |k, names, variant, d, code| {
        cases += 1;
        transitions += d[0].count * 4;
        distinct.insert(d[0].hash());
        let vname = vname(variant);
        if samples.len() < 2 && k % 501 == 7 {
            samples.push(json!({"program": names, "variant": vname, "result": crate::emu::first_line(&d[0].result), "instructions": d[0].count}));
        }
        let w = |key: &str| json!({"engine": "c20", "key": key, "case": k, "program": names, "bytes": crate::common::hex(code), "variant": variant});
        for m in 1..3 {
            if d[m] != d[0] {
                let what = d[0].diff(&d[m]);
                let key = format!("determinism|in-process|{vname}|{what}");
                findings.add(&key, || format!("two machines built the same way disagree on {what} after {:?}: {:?} vs {:?}", names, crate::emu::first_line(&d[0].result), crate::emu::first_line(&d[m].result)), || w(&key));
            }
        }
        match other.get(k) {
            Some(h) if *h == d[0].hash() => {}
            Some(_) => {
                let key = format!("determinism|cross-process|{vname}");
                findings.add(&key, || format!("a second process reaches a different final state / error text for {:?}", names), || w(&key));
            }
            None => crate::common::machinery_error("second-process pass produced too few digests"),
        }
    });
    if other.len() as u64 != cases {
        crate::common::machinery_error(&format!("second process enumerated {} cases, this one {}", other.len(), cases));
    }
    for (k, f) in findings.map {
        run.findings.merge_one(k, Finding { ..f });
    }
    run.cov("states", json!(distinct.len()));
    run.cov("transitions", json!(transitions));
    run.cov("traces_validated_against_impl", json!(cases * 4));
    run.cov("evaluations", json!(cases));
    run.cov("distinct_nontrivial", json!(distinct.len()));
    run.cov("rule", json!("one case = (program of <= L items over 14 instructions/idioms incl. brk via the built-in handler, a division whose divisor may be zero, int3, a load, a store and a jump through RBX that fault when RBX is unmapped; variant A: every register written, variant B: only RAX RBX RCX RSP written, the alphabet never reads another register before writing it, variant C: every general-purpose register holds the same unmapped address, variant D: as A with the stack and the argument strings placed by init_stack and init_stack_program_start next to code at 0x1000); every case runs on 3 independently constructed machines in this process and once in a separately exec'd process; digests of registers, flags, every area, count, trace, call stack, their renderings, result and error text must be equal; distinct_nontrivial = distinct digests"));
    run.cov("exhaustive", json!(true));
    run.cov("program_max_length", json!(maxlen));
    run.cov("machines_per_case", json!(4));
    run.cov("samples", json!(if samples.is_empty() { vec![json!("none")] } else { samples }));
    run.guard("cases", cases >= 5000, format!("{cases} cases"));
    run.guard("digests-distinct", distinct.len() > 50, format!("{} distinct digests", distinct.len()));
    run.assume("pipe descriptors are excepted by the statement and not in the alphabet; to_string() (flag-name order) is not among the listed observables");
    run.finish(&confirm_fn)
}
