//! C20 — execution is a deterministic function of the explicit inputs.

use crate::common::{Finding, Run, Tier};
use crate::emu::StepOut;
use ax_x86::axecutor::Axecutor;
use ax_x86::helpers::syscalls::Syscall;
use ax_x86::state::registers::SupportedRegister as SR;
use serde_json::{json, Value};

const BASE: u64 = 0x1000;
const STK: u64 = 0x20000;

const ITEMS: [(&str, &[u8]); 15] = [
    ("mov rax,0x1234", &[0x48, 0xC7, 0xC0, 0x34, 0x12, 0, 0]),
    ("add rax,rbx", &[0x48, 0x01, 0xD8]),
    ("adc rbx,rcx", &[0x48, 0x11, 0xCB]),
    ("push rax", &[0x50]),
    ("pop rbx", &[0x5B]),
    ("mov [rsp-16],rcx", &[0x48, 0x89, 0x4C, 0x24, 0xF0]),
    ("cmp rax,rbx; jne +0", &[0x48, 0x39, 0xD8, 0x75, 0x00]),
    ("call/ret pair", &[0xE8, 0x02, 0, 0, 0, 0xEB, 0x01, 0xC3]),
    ("brk(0) via handler", &[0x48, 0xC7, 0xC0, 12, 0, 0, 0, 0x48, 0xC7, 0xC7, 0, 0, 0, 0, 0x0F, 0x05]),
    ("xor edx,edx; div rcx", &[0x31, 0xD2, 0x48, 0xF7, 0xF1]),
    ("int3", &[0xCC]),
    // faulting accesses through a register: their error texts describe the machine (hints,
    // area lists, call stack) and are part of the compared result
    ("mov rax,[rbx]", &[0x48, 0x8B, 0x03]),
    ("mov [rbx],rcx", &[0x48, 0x89, 0x0B]),
    ("jmp rbx", &[0xFF, 0xE3]),
    // a heap that really grows: whatever a machine is granted must not depend on what other
    // machines of the process were granted before it
    (
        "brk(0); brk(+64 KiB)",
        &[0x48, 0xC7, 0xC0, 12, 0, 0, 0, 0x48, 0xC7, 0xC7, 0, 0, 0, 0, 0x0F, 0x05, 0x48, 0x8D, 0xB8, 0x00, 0x00, 0x01, 0x00, 0x48, 0xC7, 0xC0, 12, 0, 0, 0, 0x0F, 0x05],
    ),
];

pub const VARIANTS: usize = 7;
/// Variant E has its own alphabet: only the low 16 bits of RAX, RBX, RCX, RDX (and RSP) are
/// written before the run, and every item consumes 8/16-bit views only or fully overwrites what
/// it stores - results must not pick up the random upper bits of the parent registers.
const E_VARIANT: usize = 7;
const ITEMS_E: [(&str, &[u8]); 16] = [
    ("mov ah,5", &[0xB4, 0x05]),
    ("mov cx,0x0306", &[0x66, 0xB9, 0x06, 0x03]),
    ("movzx ebx,ah; mov [rsp-16],rbx", &[0x0F, 0xB6, 0xDC, 0x48, 0x89, 0x5C, 0x24, 0xF0]),
    ("mul ch; movzx edx,ax; mov [rsp-24],rdx", &[0xF6, 0xE5, 0x0F, 0xB7, 0xD0, 0x48, 0x89, 0x54, 0x24, 0xE8]),
    ("add al,bh", &[0x00, 0xF8]),
    ("movzx esi,cl; push rsi; pop rdi", &[0x0F, 0xB6, 0xF1, 0x56, 0x5F]),
    ("div ch", &[0xF6, 0xF5]),
    ("cmp al,ah; jne +0", &[0x38, 0xE0, 0x75, 0x00]),
    ("setb dl; movzx edx,dl; mov [rsp-32],rdx", &[0x0F, 0x92, 0xC2, 0x0F, 0xB6, 0xD2, 0x48, 0x89, 0x54, 0x24, 0xE0]),
    // SETcc always writes its byte - 0 as much as 1 - also into a register nothing has written yet
    ("cmp al,al; setne sil; movzx edi,sil; mov [rsp-40],rdi", &[0x38, 0xC0, 0x40, 0x0F, 0x95, 0xC6, 0x40, 0x0F, 0xB6, 0xFE, 0x48, 0x89, 0x7C, 0x24, 0xD8]),
    ("cmp al,al; sete sil; movzx edi,sil; mov [rsp-40],rdi", &[0x38, 0xC0, 0x40, 0x0F, 0x94, 0xC6, 0x40, 0x0F, 0xB6, 0xFE, 0x48, 0x89, 0x7C, 0x24, 0xD8]),
    ("cmp al,al; setb r8b; movzx r9d,r8b; mov [rsp-48],r9", &[0x38, 0xC0, 0x41, 0x0F, 0x92, 0xC0, 0x45, 0x0F, 0xB6, 0xC8, 0x4C, 0x89, 0x4C, 0x24, 0xD0]),
    ("cmp al,al; setae r8b; movzx r9d,r8b; mov [rsp-48],r9", &[0x38, 0xC0, 0x41, 0x0F, 0x93, 0xC0, 0x45, 0x0F, 0xB6, 0xC8, 0x4C, 0x89, 0x4C, 0x24, 0xD0]),
    // results that do not depend on their (never written) operand: a 16-bit register shifted by
    // more than its width gives 0 and CF = 0, a register minus itself gives 0
    ("mov cl,20; shr si,cl; setb dl; movzx edx,dl; mov [rsp-56],rdx", &[0xB1, 0x14, 0x66, 0xD3, 0xEE, 0x0F, 0x92, 0xC2, 0x0F, 0xB6, 0xD2, 0x48, 0x89, 0x54, 0x24, 0xC8]),
    ("mov cl,20; shl di,cl; setb dl; movzx edx,dl; mov [rsp-56],rdx", &[0xB1, 0x14, 0x66, 0xD3, 0xE7, 0x0F, 0x92, 0xC2, 0x0F, 0xB6, 0xD2, 0x48, 0x89, 0x54, 0x24, 0xC8]),
    ("sub r8d,r8d; mov [rsp-64],r8", &[0x45, 0x29, 0xC0, 0x4C, 0x89, 0x44, 0x24, 0xC0]),
];
fn e_maxlen(maxlen: usize) -> usize {
    maxlen.min(4)
}
fn n_main(maxlen: usize) -> usize {
    (1..=maxlen).map(|len| ITEMS.len().pow(len as u32) * VARIANTS).sum()
}
const ALIAS: u64 = 0x0dea_d000;

fn vname(variant: usize) -> &'static str {
    match variant {
        0 | 1 => "A(all-registers-written)",
        2 | 3 => "B(only-rax-rbx-rcx-rsp-written)",
        4 => "C(all-registers-hold-one-value)",
        5 => "D(stack-and-strings-placed-by-init_stack_program_start)",
        6 => "F(loaded-from-an-ELF-with-two-names-per-address)",
        _ => "E(only-low-16-bits-of-rax-rbx-rcx-rdx-written)",
    }
}

pub fn n_cases(maxlen: usize) -> usize {
    n_main(maxlen) + (1..=e_maxlen(maxlen)).map(|len| ITEMS_E.len().pow(len as u32)).sum::<usize>()
}

fn program(idx: usize, len: usize) -> (Vec<u8>, Vec<&'static str>) {
    program_of(&ITEMS, idx, len)
}

fn program_v(idx: usize, len: usize, variant: usize) -> (Vec<u8>, Vec<&'static str>) {
    if variant == E_VARIANT {
        program_of(&ITEMS_E, idx, len)
    } else {
        program_of(&ITEMS, idx, len)
    }
}

fn program_of(items: &[(&'static str, &'static [u8])], idx: usize, len: usize) -> (Vec<u8>, Vec<&'static str>) {
    let mut code = vec![];
    let mut names = vec![];
    let mut rem = idx;
    for _ in 0..len {
        let (n, b) = items[rem % items.len()];
        rem /= items.len();
        code.extend_from_slice(b);
        names.push(n);
    }
    code.push(0x90);
    (code, names)
}

/// variant 0/1: A (every register written) with rcx = 0 / 5; 2/3: B (only RAX RBX RCX RSP);
/// 4: C (every general-purpose register holds the same unmapped address, RSP excepted)
fn build(code: &[u8], variant: usize) -> Axecutor {
    let mut ax = if variant == 6 {
        // the same program as the text segment of a generated ELF whose symbol table gives
        // every one of the first 48 addresses two names: whatever the trace and the call stack
        // render for an address must not depend on anything but the file
        let mut syms = vec![];
        for off in 0..48u64 {
            for tag in ["alpha", "beta"] {
                syms.push(crate::elfgen::Sym { name: Some(format!("{tag}_{off}")), value: 0x401000 + off, shndx: 4, info: 0x12 });
            }
        }
        let spec = crate::elfgen::ElfSpec {
            e_type: 2,
            entry: 0x401000,
            segs: vec![crate::elfgen::Seg { p_type: crate::elfgen::PT_LOAD, flags: 5, vaddr: 0x401000, file: code.to_vec(), memsz: code.len() as u64, align: 0x1000 }],
            syms: Some(syms),
        };
        Axecutor::from_binary(&crate::elfgen::write(&spec)).unwrap()
    } else {
        Axecutor::new(code, BASE, BASE).unwrap()
    };
    if variant != 5 {
        ax.mem_init_zero(STK, 0x200).unwrap();
    }
    if variant == E_VARIANT {
        ax.reg_write_16(SR::AX, 0x1234).unwrap();
        ax.reg_write_16(SR::BX, 0x8765).unwrap();
        ax.reg_write_16(SR::CX, 0x0306).unwrap();
        ax.reg_write_16(SR::DX, 0x0001).unwrap();
        ax.reg_write_64(SR::RSP, STK + 0x100).unwrap();
        ax.verif_set_rflags(0);
        ax.set_max_instructions(40);
        return ax;
    }
    if variant < 2 || variant >= 4 {
        for k in 0..16 {
            ax.reg_write_64(crate::emu::GPR64[k], if variant == 4 { ALIAS } else { 0x100 + k as u64 }).unwrap();
            ax.reg_write_128(crate::emu::XMM[k], 0x200 + k as u128).unwrap();
        }
    }
    if variant != 4 {
        ax.reg_write_64(SR::RAX, 7).unwrap();
        ax.reg_write_64(SR::RBX, u64::MAX).unwrap();
        ax.reg_write_64(SR::RCX, if variant % 2 == 0 { 0 } else { 5 }).unwrap();
    }
    if variant == 5 {
        // every placement decision is the library's: three strings and the stack, each of
        // which first collides with the code at 0x1000
        ax.init_stack(0x40).unwrap();
        ax.init_stack_program_start(0x100, vec!["prog".to_string(), "x".to_string()], vec!["A=b".to_string()]).unwrap();
    } else {
        ax.reg_write_64(SR::RSP, STK + 0x100).unwrap();
    }
    ax.verif_set_rflags(0);
    // B1 runs without syscall handlers: its `syscall`s are rejected, and what the rejection
    // says (with RSI, RDX, ... never written) is part of the compared result
    if variant != 3 {
        ax.handle_syscalls(vec![Syscall::Brk, Syscall::Exit]).unwrap();
    }
    ax.set_max_instructions(40);
    ax
}

#[derive(Clone, Debug, PartialEq, Eq)]
pub struct Digest {
    pub regs: u64,
    pub flags: u64,
    pub mem: u64,
    pub count: u64,
    pub trace: u64,
    pub result: String,
}

impl Digest {
    pub fn hash(&self) -> u64 {
        let mut f = crate::common::Fp::new();
        f.u64(self.regs);
        f.u64(self.flags);
        f.u64(self.mem);
        f.u64(self.count);
        f.u64(self.trace);
        f.str(&self.result);
        f.0
    }
    pub fn diff(&self, o: &Digest) -> &'static str {
        if self.result != o.result {
            "result-or-error-text"
        } else if self.regs != o.regs {
            "registers"
        } else if self.flags != o.flags {
            "flags"
        } else if self.mem != o.mem {
            "memory"
        } else if self.count != o.count {
            "instruction-count"
        } else if self.trace != o.trace {
            "trace-or-call-stack"
        } else {
            "none"
        }
    }
}

/// `interleaved`: the machine is driven by single steps that alternate with the steps of a
/// decoy machine running another program (state shared between machines of one process - a
/// scratch buffer, a decode cache - shows only then); otherwise by execute().
fn run_one(code: &[u8], variant: usize, interleaved: bool) -> Digest {
    let mut ax = build(code, variant);
    let result = if interleaved {
        let decoy_code: Vec<u8> = [0x48u8, 0xC7, 0xC0, 0x77, 0, 0, 0, 0x50, 0x5B, 0x48, 0x01, 0xD8, 0xEB, 0xF2].to_vec();
        let mut decoy = build(&decoy_code, (variant + 1) % 4);
        let mut out = None;
        for _ in 0..64 {
            let _ = crate::emu::step(&mut decoy);
            match crate::emu::step(&mut ax) {
                StepOut::Ok(true) => {}
                StepOut::Ok(false) => {
                    out = Some("finished".to_string());
                    break;
                }
                StepOut::Err(e) => {
                    out = Some(format!("Err({e})"));
                    break;
                }
                StepOut::Panic(p) => {
                    out = Some(format!("Panic({}: {})", p.loc, p.msg));
                    break;
                }
            }
        }
        out.unwrap_or_else(|| "still running after 64 steps".to_string())
    } else {
        match crate::emu::execute(&mut ax) {
            Ok(Ok(())) => "finished".to_string(),
            Ok(Err(e)) => format!("Err({e})"),
            Err(p) => format!("Panic({}: {})", p.loc, p.msg),
        }
    };
    let mut regs = crate::common::Fp::new();
    if variant == E_VARIANT {
        for r in [SR::AX, SR::BX, SR::CX, SR::DX] {
            regs.u64(ax.reg_read_16(r).unwrap());
        }
        regs.u64(ax.reg_read_64(SR::RSP).unwrap());
    }
    let written: Vec<SR> = if variant == E_VARIANT {
        vec![]
    } else if variant < 2 || variant >= 4 {
        crate::emu::GPR64.to_vec()
    } else {
        vec![SR::RAX, SR::RBX, SR::RCX, SR::RSP]
    };
    for r in written {
        regs.u64(ax.reg_read_64(r).unwrap());
    }
    regs.u64(crate::emu::rip(&ax));
    if variant != E_VARIANT && (variant < 2 || variant >= 4) {
        for x in crate::emu::xmms(&ax) {
            regs.u64(x as u64);
            regs.u64((x >> 64) as u64);
        }
    }
    let mut mem = crate::common::Fp::new();
    let mut a = ax.verif_areas();
    a.sort_by_key(|x| (x.start, x.length));
    for x in &a {
        mem.u64(x.start);
        mem.u64(x.length);
        mem.u64(x.access as u64);
        mem.bytes(&x.data);
    }
    let mut tr = crate::common::Fp::new();
    for t in ax.verif_trace_entries() {
        tr.u64(t.instr_ip);
        tr.u64(t.target);
        tr.u64(t.kind as u64);
        tr.u64(t.level as u64);
        tr.u64(t.count);
    }
    for c in ax.verif_call_stack_raw() {
        tr.u64(c);
    }
    // the rendered forms are error-text material too
    if let Ok(Ok(s)) = crate::emu::guarded(|| ax.trace().map_err(|e| e.to_string())) {
        tr.str(&s);
    }
    if let Ok(Ok(s)) = crate::emu::guarded(|| ax.call_stack().map_err(|e| e.to_string())) {
        tr.str(&s);
    }
    Digest {
        regs: regs.0,
        flags: ax.verif_rflags(),
        mem: mem.0,
        count: ax.verif_executed(),
        trace: tr.0,
        result,
    }
}

/// Enumerates every case; `f(case index, names, variant, digests of 3 machines)`.
pub fn enumerate(maxlen: usize, reverse: bool, stop_at: Option<usize>, mut f: impl FnMut(usize, &[&'static str], usize, &[Digest; 3], &[u8])) {
    // case index of (len, idx, variant) in forward order
    let mut base = vec![0usize; maxlen + 2];
    for len in 1..=maxlen {
        base[len + 1] = base[len] + ITEMS.len().pow(len as u32) * VARIANTS;
    }
    let nmain = n_main(maxlen);
    let mut base_e = vec![0usize; e_maxlen(maxlen) + 2];
    for len in 1..=e_maxlen(maxlen) {
        base_e[len + 1] = base_e[len] + ITEMS_E.len().pow(len as u32);
    }
    let mut one = |len: usize, idx: usize, variant: usize| {
        if variant == E_VARIANT {
            let (code, names) = program_of(&ITEMS_E, idx, len);
            let d = [run_one(&code, variant, false), run_one(&code, variant, false), run_one(&code, variant, true)];
            let k = nmain + base_e[len] + idx;
            f(k, &names, variant, &d, &code);
            return Some(k) == stop_at;
        }
        let (code, names) = program(idx, len);
        // third machine: stepped, interleaved with a decoy machine
        let d = [run_one(&code, variant, false), run_one(&code, variant, false), run_one(&code, variant, true)];
        let k = base[len] + idx * VARIANTS + variant;
        f(k, &names, variant, &d, &code);
        Some(k) == stop_at
    };
    if !reverse {
        for len in 1..=maxlen {
            for idx in 0..ITEMS.len().pow(len as u32) {
                for variant in 0..VARIANTS {
                    if one(len, idx, variant) {
                        return;
                    }
                }
            }
        }
        for len in 1..=e_maxlen(maxlen) {
            for idx in 0..ITEMS_E.len().pow(len as u32) {
                if one(len, idx, E_VARIANT) {
                    return;
                }
            }
        }
    } else {
        for len in (1..=e_maxlen(maxlen)).rev() {
            for idx in (0..ITEMS_E.len().pow(len as u32)).rev() {
                if one(len, idx, E_VARIANT) {
                    return;
                }
            }
        }
        // the second process meets the cases in the opposite order: a case that comes early in
        // one process comes late in the other, so state that accumulates per process (a global
        // counter, budget or cache) gives the two runs of a case different histories
        for len in (1..=maxlen).rev() {
            for idx in (0..ITEMS.len().pow(len as u32)).rev() {
                for variant in (0..VARIANTS).rev() {
                    if one(len, idx, variant) {
                        return;
                    }
                }
            }
        }
    }
}

/// Confirmation mode (fresh process): runs the enumeration in the given order up to case `k`
/// and prints the digests of that case: `h0 h1 h2 <diff 0/1> <diff 0/2>`.
pub fn one_case(maxlen: usize, k: usize, reverse: bool) -> i32 {
    let mut line = String::new();
    enumerate(maxlen, reverse, Some(k), |kk, _n, v, d, c| {
        if kk == k {
            // a leak of a single random bit lets two machines agree half of the time: the
            // confirmation looks at six more machines of the same case
            let mut d1 = d[0].diff(&d[1]);
            let mut d2 = d[0].diff(&d[2]);
            for _ in 0..6 {
                let x = run_one(c, v, false);
                let df = d[0].diff(&x);
                if d1 == "none" {
                    d1 = df;
                } else if d2 == "none" {
                    d2 = df;
                }
            }
            line = format!("{} {} {} {} {}", d[0].hash(), d[1].hash(), d[2].hash(), d1, d2);
        }
    });
    println!("{line}");
    0
}

fn case_of(k: usize, maxlen: usize) -> (usize, usize, usize) {
    let mut base = 0usize;
    for len in 1..=maxlen {
        let n = ITEMS.len().pow(len as u32) * VARIANTS;
        if k < base + n {
            let r = k - base;
            return (len, r / VARIANTS, r % VARIANTS);
        }
        base += n;
    }
    for len in 1..=e_maxlen(maxlen) {
        let n = ITEMS_E.len().pow(len as u32);
        if k < base + n {
            return (len, k - base, E_VARIANT);
        }
        base += n;
    }
    (maxlen, 0, 0)
}

/// Child mode (fresh process, fresh hash seeds): prints one digest hash per case.
pub fn child(maxlen: usize, out: &str) -> i32 {
    let mut v: Vec<u8> = vec![0u8; n_cases(maxlen) * 8];
    enumerate(maxlen, true, None, |k, _n, _v, d, _c| {
        v[k * 8..k * 8 + 8].copy_from_slice(&d[0].hash().to_le_bytes());
    });
    match std::fs::write(out, v) {
        Ok(()) => 0,
        Err(_) => 2,
    }
}

/// Confirmations are independent fresh processes (two per witness): eight witnesses at a time.
fn par_confirm(ws: &[Value], f: &(dyn Fn(&Value) -> Result<Vec<String>, String> + Sync)) -> Vec<Result<Vec<String>, String>> {
    let mut out = vec![];
    for chunk in ws.chunks(8) {
        let rs: Vec<Result<Vec<String>, String>> = std::thread::scope(|s| {
            let hs: Vec<_> = chunk.iter().map(|w| s.spawn(move || f(w))).collect();
            hs.into_iter().map(|h| h.join().unwrap_or_else(|_| Err("confirmation thread panicked".into()))).collect()
        });
        out.extend(rs);
    }
    out
}

pub fn run(tier: Tier) -> i32 {
    let mut run = Run::new("C20", tier.clone());
    run.rare_disagreements_tolerated = true;
    let maxlen = if tier.is_thorough() { 5 } else { 4 };
    // second process first (exec: fresh RandomState seeds, fresh thread RNG)
    let scratch = std::path::Path::new(crate::common::VERIF_ROOT).join(".build").join("scratch");
    let _ = std::fs::create_dir_all(&scratch);
    let outf = scratch.join(format!("c20.{}.bin", std::process::id()));
    let exe = std::env::current_exe().expect("own path");
    // A disagreement is confirmed in fresh processes: the histories that produced it (this
    // process going forward, the second one going backward) are re-created up to the case, each
    // in its own process, because what a machine does may - that is the violation - depend on
    // what the process did before.
    let exe2 = exe.clone();
    let confirm_fn = move |w: &Value| -> Result<Vec<String>, String> {
        let k = w["case"].as_u64().ok_or("no case")? as usize;
        let variant = case_of(k, maxlen).2;
        let vname = vname(variant);
        let run = |reverse: bool| -> Result<Vec<String>, String> {
            let out = std::process::Command::new(&exe2)
                .args(["c20-one", &maxlen.to_string(), &k.to_string(), if reverse { "1" } else { "0" }])
                .output()
                .map_err(|e| format!("confirmation process: {e}"))?;
            if !out.status.success() {
                return Err(format!("confirmation process failed: {:?}", out.status));
            }
            let txt = String::from_utf8_lossy(&out.stdout).to_string();
            let line = txt.lines().last().unwrap_or("").to_string();
            let parts: Vec<String> = line.split(' ').map(|x| x.to_string()).collect();
            if parts.len() != 5 {
                return Err(format!("confirmation process printed {line:?}"));
            }
            Ok(parts)
        };
        let (fwd, bwd) = std::thread::scope(|s| {
            let b = s.spawn(|| run(true));
            let f = run(false);
            (f, b.join().unwrap())
        });
        let fwd = fwd?;
        let bwd = bwd?;
        let mut keys = vec![];
        for d in [&fwd[3], &fwd[4]] {
            if d != "none" {
                keys.push(format!("determinism|in-process|{vname}|{d}"));
            }
        }
        if fwd[0] != bwd[0] {
            keys.push(format!("determinism|cross-process|{vname}"));
        }
        keys.sort();
        keys.dedup();
        // nondeterminism is the violation itself: which other observables differ may vary from
        // replay to replay; what must reproduce is the recorded disagreement
        let want = w["key"].as_str().unwrap_or("").to_string();
        // ... and for two machines of one process, WHICH observable differs first depends on the
        // random draws of that pair: any in-process disagreement of the same variant confirms
        let prefix = format!("determinism|in-process|{vname}|");
        if want.starts_with(&prefix) && keys.iter().any(|k| k.starts_with(&prefix)) {
            return Ok(vec![want]);
        }
        keys.retain(|k| *k == want);
        Ok(keys)
    };
    if let Some(art) = crate::common::replay_artefact() {
        return crate::common::finish_replay("C20", &art, &|ws| par_confirm(ws, &confirm_fn));
    }
    // the second process runs while this one enumerates (it is joined before the comparison)
    let child = std::process::Command::new(&exe)
        .args(["c20-child", &maxlen.to_string(), outf.to_str().unwrap()])
        .spawn();
    let mut child = match child {
        Ok(c) => c,
        Err(e) => crate::common::machinery_error(&format!("second-process pass could not start: {e}")),
    };
    let join_child = |child: &mut std::process::Child| -> Vec<u64> {
        match child.wait() {
            Ok(s) if s.success() => {}
            other => crate::common::machinery_error(&format!("second-process pass failed: {other:?}")),
        }
        let v: Vec<u64> = std::fs::read(&outf)
            .unwrap_or_default()
            .chunks_exact(8)
            .map(|c| u64::from_le_bytes(c.try_into().unwrap()))
            .collect();
        let _ = std::fs::remove_file(&outf);
        v
    };
    let mut cases = 0u64;
    let mut distinct = std::collections::HashSet::new();
    let mut samples: Vec<Value> = vec![];
    let mut findings = crate::common::Findings::new();
    let mut transitions = 0u64;
    let mut mine: Vec<u64> = vec![];
    enumerate(maxlen, false, None, |k, names, variant, d, code| {
        cases += 1;
        transitions += d[0].count * 4;
        distinct.insert(d[0].hash());
        let vname = vname(variant);
        if samples.len() < 2 && k % 501 == 7 {
            samples.push(json!({"program": names, "variant": vname, "result": crate::emu::first_line(&d[0].result), "instructions": d[0].count}));
        }
        let w = |key: &str| json!({"engine": "c20", "key": key, "case": k, "program": names, "bytes": crate::common::hex(code), "variant": variant});
        for m in 1..3 {
            if d[m] != d[0] {
                let what = d[0].diff(&d[m]);
                let key = format!("determinism|in-process|{vname}|{what}");
                findings.add(&key, || format!("two machines built the same way disagree on {what} after {:?}: {:?} vs {:?}", names, crate::emu::first_line(&d[0].result), crate::emu::first_line(&d[m].result)), || w(&key));
            }
        }
        if mine.len() <= k {
            mine.resize(k + 1, 0);
        }
        mine[k] = d[0].hash();
    });
    let other = join_child(&mut child);
    if other.len() as u64 != cases {
        crate::common::machinery_error(&format!("second process enumerated {} cases, this one {}", other.len(), cases));
    }
    for (k, h) in mine.iter().enumerate() {
        if other[k] != *h {
            let (len, idx, variant) = case_of(k, maxlen);
            let (code, names) = program_v(idx, len, variant);
            let vname = vname(variant);
            let key = format!("determinism|cross-process|{vname}");
            findings.add(&key, || format!("a second process reaches a different final state / error text for {:?}", names), || json!({"engine": "c20", "key": key, "case": k, "program": names, "bytes": crate::common::hex(&code), "variant": variant}));
        }
    }
    for (k, f) in findings.map {
        run.findings.merge_one(k, Finding { ..f });
    }
    run.cov("states", json!(distinct.len()));
    run.cov("transitions", json!(transitions));
    run.cov("traces_validated_against_impl", json!(cases * 4));
    run.cov("evaluations", json!(cases));
    run.cov("distinct_nontrivial", json!(distinct.len()));
    run.cov("rule", json!("one case = (program of <= L items over 15 instructions/idioms incl. brk via the built-in handler (query, and growth by 64 KiB), a division whose divisor may be zero, int3, a load, a store and a jump through RBX that fault when RBX is unmapped; variant A: every register written, variant B: only RAX RBX RCX RSP written, the alphabet never reads another register before writing it, variant C: every general-purpose register holds the same unmapped address, variant D: as A with the stack and the argument strings placed by init_stack and init_stack_program_start next to code at 0x1000; variant F: as A, but the machine is loaded from a generated ELF whose symbol table names every address twice; variant E, with its own 16-item alphabet and programs <= 4: only the low 16 bits of RAX RBX RCX RDX written, items that consume 8/16-bit views only); every case runs on 3 independently constructed machines in this process (two by execute(), the third by single steps interleaved with the steps of a decoy machine) and once in a separately exec'd process that meets the cases in the opposite order; digests of registers, flags, every area, count, trace, call stack, their renderings, result and error text must be equal; distinct_nontrivial = distinct digests"));
    run.cov("exhaustive", json!(true));
    run.cov("program_max_length", json!(maxlen));
    run.cov("machines_per_case", json!(4));
    run.cov("samples", json!(if samples.is_empty() { vec![json!("none")] } else { samples }));
    run.guard("cases", cases >= 5000, format!("{cases} cases"));
    run.guard("digests-distinct", distinct.len() > 50, format!("{} distinct digests", distinct.len()));
    run.assume("pipe descriptors are excepted by the statement and not in the alphabet; to_string() (flag-name order) is not among the listed observables");
    run.finish_batch(&|ws| par_confirm(ws, &confirm_fn))
}
