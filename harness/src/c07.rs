//! C07 — register API behaves like the x86-64 register file.

use crate::common::{Run, Tier};
use crate::emu::guarded;
use crate::stexp::*;
use ax_x86::axecutor::Axecutor;
use ax_x86::state::registers::SupportedRegister as SR;
use serde::{Deserialize, Serialize};
use serde_json::json;
use std::sync::Arc;

#[derive(Clone, Copy, Debug)]
pub struct View {
    pub sr: SR,
    pub name: &'static str,
    pub full: usize, // 0..16 GPR, 16 = RIP
    pub bits: u32,
    pub high: bool,
}

macro_rules! v {
    ($sr:ident, $full:expr, $bits:expr) => {
        View { sr: SR::$sr, name: stringify!($sr), full: $full, bits: $bits, high: false }
    };
    ($sr:ident, $full:expr, $bits:expr, high) => {
        View { sr: SR::$sr, name: stringify!($sr), full: $full, bits: $bits, high: true }
    };
}

pub fn views() -> Vec<View> {
    vec![
        v!(RAX, 0, 64), v!(RCX, 1, 64), v!(RDX, 2, 64), v!(RBX, 3, 64), v!(RSP, 4, 64), v!(RBP, 5, 64), v!(RSI, 6, 64), v!(RDI, 7, 64),
        v!(R8, 8, 64), v!(R9, 9, 64), v!(R10, 10, 64), v!(R11, 11, 64), v!(R12, 12, 64), v!(R13, 13, 64), v!(R14, 14, 64), v!(R15, 15, 64),
        v!(EAX, 0, 32), v!(ECX, 1, 32), v!(EDX, 2, 32), v!(EBX, 3, 32), v!(ESP, 4, 32), v!(EBP, 5, 32), v!(ESI, 6, 32), v!(EDI, 7, 32),
        v!(R8D, 8, 32), v!(R9D, 9, 32), v!(R10D, 10, 32), v!(R11D, 11, 32), v!(R12D, 12, 32), v!(R13D, 13, 32), v!(R14D, 14, 32), v!(R15D, 15, 32),
        v!(AX, 0, 16), v!(CX, 1, 16), v!(DX, 2, 16), v!(BX, 3, 16), v!(SP, 4, 16), v!(BP, 5, 16), v!(SI, 6, 16), v!(DI, 7, 16),
        v!(R8W, 8, 16), v!(R9W, 9, 16), v!(R10W, 10, 16), v!(R11W, 11, 16), v!(R12W, 12, 16), v!(R13W, 13, 16), v!(R14W, 14, 16), v!(R15W, 15, 16),
        v!(AL, 0, 8), v!(CL, 1, 8), v!(DL, 2, 8), v!(BL, 3, 8), v!(SPL, 4, 8), v!(BPL, 5, 8), v!(SIL, 6, 8), v!(DIL, 7, 8),
        v!(R8L, 8, 8), v!(R9L, 9, 8), v!(R10L, 10, 8), v!(R11L, 11, 8), v!(R12L, 12, 8), v!(R13L, 13, 8), v!(R14L, 14, 8), v!(R15L, 15, 8),
        v!(AH, 0, 8, high), v!(CH, 1, 8, high), v!(DH, 2, 8, high), v!(BH, 3, 8, high),
    ]
}

/// registers that are no general-purpose view at all
pub fn non_views() -> Vec<View> {
    vec![
        View { sr: SR::RIP, name: "RIP", full: 16, bits: 64, high: false },
        View { sr: SR::EIP, name: "EIP", full: 16, bits: 0, high: false },
        View { sr: SR::XMM0, name: "XMM0", full: 99, bits: 0, high: false },
        View { sr: SR::XMM15, name: "XMM15", full: 99, bits: 0, high: false },
    ]
}

fn lookup(name: &str) -> Option<View> {
    views().into_iter().chain(non_views()).find(|v| v.name == name)
}

fn view_class(v: &View) -> &'static str {
    match (v.name, v.bits, v.high) {
        ("RIP", _, _) => "rip",
        ("EIP", _, _) => "eip",
        (n, _, _) if n.starts_with("XMM") => "xmm",
        (_, 8, true) => "high8",
        (_, 8, false) => "low8",
        (_, 16, _) => "r16",
        (_, 32, _) => "r32",
        _ => "r64",
    }
}

#[derive(Clone, Debug, PartialEq, Serialize, Deserialize)]
pub enum Op {
    Write { acc: u32, view: String, value: u64 },
    Read { acc: u32, view: String },
}

#[derive(Clone, Debug, PartialEq, Eq, Hash)]
pub struct M {
    pub r: [u64; 17],
}

pub struct C07 {
    pub thorough: bool,
}

fn mask(bits: u32) -> u64 {
    if bits >= 64 {
        u64::MAX
    } else {
        (1u64 << bits) - 1
    }
}

fn model_read(m: &M, v: &View) -> u64 {
    let x = m.r[v.full];
    if v.high {
        (x >> 8) & 0xFF
    } else {
        x & mask(v.bits)
    }
}

fn model_write(m: &mut M, v: &View, val: u64) {
    let old = m.r[v.full];
    m.r[v.full] = match (v.bits, v.high) {
        (8, true) => (old & !0xFF00) | (val << 8),
        (8, false) => (old & !0xFF) | val,
        (16, _) => (old & !0xFFFF) | val,
        (32, _) => val, // zero-extends
        _ => val,
    };
}

fn do_write(ax: &mut Axecutor, acc: u32, sr: SR, val: u64) -> Result<Result<(), String>, crate::emu::PanicInfo> {
    guarded(|| {
        match acc {
            8 => ax.reg_write_8(sr, val),
            16 => ax.reg_write_16(sr, val),
            32 => ax.reg_write_32(sr, val),
            _ => ax.reg_write_64(sr, val),
        }
        .map_err(|e| e.to_string())
    })
}
fn do_read(ax: &Axecutor, acc: u32, sr: SR) -> Result<Result<u64, String>, crate::emu::PanicInfo> {
    guarded(|| {
        match acc {
            8 => ax.reg_read_8(sr),
            16 => ax.reg_read_16(sr),
            32 => ax.reg_read_32(sr),
            _ => ax.reg_read_64(sr),
        }
        .map_err(|e| e.to_string())
    })
}

impl C07 {
    fn values(bits: u32) -> Vec<u64> {
        let m = mask(bits);
        let mut v = vec![0, 1, m, 1u64 << (bits - 1), (1u64 << (bits - 1)) - 1, 0x5555_5555_5555_5555 & m, 0xA5A5_A5A5_A5A5_A5A5 & m];
        v.dedup();
        v
    }
    fn full_alphabet(&self) -> Vec<Op> {
        let mut ops = vec![];
        for v in views() {
            for val in Self::values(v.bits) {
                ops.push(Op::Write { acc: v.bits, view: v.name.into(), value: val });
            }
            // values that do not fit
            if v.bits < 64 {
                // ... incl. values whose excess bits sit only at the very top (a check made after
                // shifting the value into place would not see them)
                for val in [1u64 << v.bits, u64::MAX, (1u64 << v.bits) | 1, 1u64 << 63, 1u64 << 56, (1u64 << 63) | 0x12] {
                    ops.push(Op::Write { acc: v.bits, view: v.name.into(), value: val });
                }
            }
            // wrong accessor width
            for acc in [8u32, 16, 32, 64] {
                if acc != v.bits {
                    ops.push(Op::Write { acc, view: v.name.into(), value: 1 });
                    ops.push(Op::Read { acc, view: v.name.into() });
                }
            }
        }
        for v in non_views() {
            for acc in [8u32, 16, 32, 64] {
                ops.push(Op::Write { acc, view: v.name.into(), value: 1 });
                ops.push(Op::Read { acc, view: v.name.into() });
            }
        }
        ops.push(Op::Write { acc: 64, view: "RIP".into(), value: u64::MAX });
        ops.push(Op::Write { acc: 64, view: "RIP".into(), value: 0 });
        ops
    }
    fn sub_alphabet(&self) -> Vec<Op> {
        let mut ops = vec![];
        for name in ["AL", "AH", "AX", "EAX", "RAX", "SPL", "SP", "ESP", "RSP", "R8L", "R8W", "R8D", "R8"] {
            let v = lookup(name).unwrap();
            let m = mask(v.bits);
            for val in [0u64, m, 0xA5A5_A5A5_A5A5_A5A5 & m] {
                ops.push(Op::Write { acc: v.bits, view: name.into(), value: val });
            }
        }
        // rejections interleaved with the colliding writes
        ops.push(Op::Write { acc: 8, view: "AX".into(), value: 1 });
        ops.push(Op::Write { acc: 16, view: "AX".into(), value: 0x1_0000 });
        ops.push(Op::Write { acc: 32, view: "RAX".into(), value: 1 });
        ops.push(Op::Write { acc: 8, view: "AH".into(), value: 0x100 });
        ops
    }
}

impl Spec for C07 {
    type Op = Op;
    type M = M;

    fn inits(&self) -> Vec<(String, Axecutor, M)> {
        let fills: [(&str, fn(usize) -> u64); 3] = [
            ("zeros", |_| 0),
            ("ones", |_| u64::MAX),
            ("distinct", |k| crate::emu::filler_gpr(k)),
        ];
        let mut out = vec![];
        for (name, f) in fills {
            let mut ax = Axecutor::new(&[0x90], 0x1000, 0x1000).unwrap();
            let mut m = M { r: [0; 17] };
            for k in 0..16 {
                ax.reg_write_64(crate::emu::GPR64[k], f(k)).unwrap();
                m.r[k] = f(k);
            }
            for k in 0..16 {
                ax.reg_write_128(crate::emu::XMM[k], crate::emu::filler_xmm(k)).unwrap();
            }
            m.r[16] = 0x1000;
            out.push((name.to_string(), ax, m));
        }
        out
    }

    fn ops(&self, _m: &M, depth: usize) -> Vec<Op> {
        if depth == 0 {
            self.full_alphabet()
        } else {
            self.sub_alphabet()
        }
    }

    fn apply(&self, ax: &mut Axecutor, m: &M, op: &Op, _soft: &mut Vec<Divergence>) -> Result<Option<M>, Divergence> {
        let before = crate::emu::fingerprint(ax);
        let mut m2 = m.clone();
        match op {
            Op::Write { acc, view, value } => {
                let v = lookup(view).unwrap();
                let cls = view_class(&v);
                let legal_view = (v.bits == *acc && v.full < 16) || (v.name == "RIP" && *acc == 64);
                let fits = *value <= mask(*acc);
                let r = do_write(ax, *acc, v.sr, *value);
                let r = match r {
                    Err(p) => return Err(div(format!("write{acc}|panic@{}|{cls}", p.tag()), format!("reg_write_{acc}({view}, {value:#x}) panicked: {}", crate::emu::first_line(&p.msg)))),
                    Ok(r) => r,
                };
                if legal_view && fits {
                    if let Err(e) = r {
                        return Err(div(format!("write{acc}|rejected-valid|{cls}"), format!("reg_write_{acc}({view}, {value:#x}) rejected: {}", crate::emu::first_line(&e))));
                    }
                    if v.name == "RIP" {
                        m2.r[16] = *value;
                    } else {
                        model_write(&mut m2, &v, *value);
                    }
                } else {
                    if r.is_ok() {
                        let why = if !legal_view { "accepted-wrong-width" } else { "accepted-out-of-range" };
                        return Err(div(format!("write{acc}|{why}|{cls}"), format!("reg_write_{acc}({view}, {value:#x}) was accepted")));
                    }
                    if crate::emu::fingerprint(ax) != before {
                        return Err(div(format!("write{acc}|state-changed-on-reject|{cls}"), format!("rejected reg_write_{acc}({view}, {value:#x}) modified the machine")));
                    }
                }
            }
            Op::Read { acc, view } => {
                let v = lookup(view).unwrap();
                let cls = view_class(&v);
                let legal_view = (v.bits == *acc && v.full < 16) || (v.name == "RIP" && *acc == 64);
                let r = match do_read(ax, *acc, v.sr) {
                    Err(p) => return Err(div(format!("read{acc}|panic@{}|{cls}", p.tag()), format!("reg_read_{acc}({view}) panicked: {}", crate::emu::first_line(&p.msg)))),
                    Ok(r) => r,
                };
                if !legal_view && r.is_ok() {
                    return Err(div(format!("read{acc}|accepted-wrong-width|{cls}"), format!("reg_read_{acc}({view}) was accepted")));
                }
                if crate::emu::fingerprint(ax) != before {
                    return Err(div(format!("read{acc}|state-changed|{cls}"), format!("reg_read_{acc}({view}) modified the machine")));
                }
            }
        }
        // read everything back
        let opname = match op {
            Op::Write { acc, view, .. } => format!("write{acc}:{}", view_class(&lookup(view).unwrap())),
            Op::Read { acc, .. } => format!("read{acc}"),
        };
        for v in views() {
            let got = match do_read(ax, v.bits, v.sr) {
                Ok(Ok(x)) => x,
                Ok(Err(e)) => return Err(div(format!("{opname}|readback-rejected|{}", view_class(&v)), format!("reg_read_{}({}) failed after {op:?}: {}", v.bits, v.name, crate::emu::first_line(&e)))),
                Err(p) => return Err(div(format!("{opname}|readback-panic@{}|{}", p.tag(), view_class(&v)), format!("reg_read_{}({}) panicked after {op:?}", v.bits, v.name))),
            };
            let want = model_read(&m2, &v);
            if got != want {
                return Err(div(
                    format!("{opname}|readback:{}", view_class(&v)),
                    format!("after {op:?}: {} reads {got:#x}, register file model says {want:#x}", v.name),
                ));
            }
        }
        match do_read(ax, 64, SR::RIP) {
            Ok(Ok(x)) if x == m2.r[16] => {}
            other => return Err(div(format!("{opname}|readback:rip"), format!("after {op:?}: RIP reads {other:?}, model {:#x}", m2.r[16]))),
        }
        Ok(Some(m2))
    }

    fn crash_class(&self, _m: &M, op: &Op) -> String {
        match op {
            Op::Write { acc, view, .. } => format!("write{acc}|{}", view_class(&lookup(view).unwrap())),
            Op::Read { acc, view } => format!("read{acc}|{}", view_class(&lookup(view).unwrap())),
        }
    }
    fn risky(&self, _op: &Op) -> bool {
        false
    }
}

pub fn run(tier: Tier) -> i32 {
    let mut run = Run::new("C07", tier.clone());
    let spec = Arc::new(C07 { thorough: tier.is_thorough() });
    if let Some(art) = crate::common::replay_artefact() {
        return crate::common::finish_replay("C07", &art, &|ws| ws.iter().map(|w| confirm_stexp(&*spec, w)).collect());
    }
    let depth = if tier.is_thorough() { 4 } else { 3 };
    let out = run_stexp(Arc::clone(&spec), depth, crate::common::ncpu(), 0, if tier.is_thorough() { 1500 } else { 45 });
    st_evidence(&mut run, &out, depth, "depth 1: every write of 68 views x 7 boundary values, 3 non-fitting values, every wrong-width accessor (write+read), RIP/EIP/XMM through every accessor; deeper: 13 colliding views of the RAX/RSP/R8 families x 3 values + 4 rejections; 3 initial register fills; all 68 views and RIP read back after every operation");
    run.guard("states", out.states >= 1000, format!("{} states", out.states));
    run.guard("both-accept-and-reject", out.agreed > 0, format!("{} agreed transitions", out.agreed));
    run.assume("with the verification hook a by-design rejection is an Err; a panic is reported as a crash");
    let spec2 = Arc::clone(&spec);
    run.finish(&move |w| confirm_stexp(&*spec2, w))
}
