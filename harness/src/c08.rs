//! C08 — guest memory is a consistent little-endian byte store with strict bounds.

use crate::common::{Run, Tier};
use crate::emu::{guarded, StepOut};
use crate::stexp::*;
use ax_x86::axecutor::Axecutor;
use ax_x86::state::registers::SupportedRegister as SR;
use serde::{Deserialize, Serialize};
use serde_json::json;
use std::collections::BTreeMap;
use std::sync::Arc;

const CODE_AT: u64 = 0x7000_0000;
// guest probes: (offset, bytes) — load/store of each width through [rbx]
const G_LOAD: [(u32, u64, &[u8]); 4] = [
    (8, 0x00, &[0x8A, 0x03]),        // mov al,[rbx]
    (16, 0x10, &[0x66, 0x8B, 0x03]), // mov ax,[rbx]
    (32, 0x20, &[0x8B, 0x03]),       // mov eax,[rbx]
    (64, 0x30, &[0x48, 0x8B, 0x03]), // mov rax,[rbx]
];
const G_STORE: [(u32, u64, &[u8]); 4] = [
    (8, 0x40, &[0x88, 0x03]),
    (16, 0x50, &[0x66, 0x89, 0x03]),
    (32, 0x60, &[0x89, 0x03]),
    (64, 0x70, &[0x48, 0x89, 0x03]),
];

/// Loads through OTHER instructions than MOV (each handler fetches its operand itself):
/// (name, operand bytes, code offset, code, how the destination relates to the loaded value)
#[derive(Clone, Copy, PartialEq)]
enum Dst {
    /// xmm0 = zero-extended value
    Xmm,
    /// rax = zero-extended value
    RaxZero,
    /// rax = value sign-extended from 32 bits
    RaxSign32,
    /// rip = value (RSP points into an area, so the push of a call can succeed)
    Rip,
    /// the loaded value ends up on the stack: only acceptance and "a failing load changes nothing"
    Unchecked,
}
const G_LOADX: [(&str, u64, u64, &[u8], Dst); 13] = [
    ("movd", 4, 0x80, &[0x66, 0x0F, 0x6E, 0x03], Dst::Xmm),             // movd xmm0,[rbx]
    ("movq", 8, 0x88, &[0x66, 0x48, 0x0F, 0x6E, 0x03], Dst::Xmm),       // movq xmm0,[rbx]
    ("movups", 16, 0x90, &[0x0F, 0x10, 0x03], Dst::Xmm),                // movups xmm0,[rbx]
    ("movzx32-8", 1, 0x98, &[0x0F, 0xB6, 0x03], Dst::RaxZero),          // movzx eax,byte [rbx]
    ("movzx32-16", 2, 0xA0, &[0x0F, 0xB7, 0x03], Dst::RaxZero),         // movzx eax,word [rbx]
    ("movzx64-16", 2, 0xA8, &[0x48, 0x0F, 0xB7, 0x03], Dst::RaxZero),   // movzx rax,word [rbx]
    ("movsxd", 4, 0xB0, &[0x48, 0x63, 0x03], Dst::RaxSign32),           // movsxd rax,dword [rbx]
    ("add-load32", 4, 0xB8, &[0x31, 0xC0, 0x03, 0x03], Dst::RaxZero),   // xor eax,eax ; add eax,[rbx]
    ("call-mem", 8, 0xC0, &[0xFF, 0x13], Dst::Rip),                      // call [rbx]
    ("jmp-mem", 8, 0xC8, &[0xFF, 0x23], Dst::Rip),                       // jmp [rbx]
    ("push-mem", 8, 0xD0, &[0xFF, 0x33], Dst::Unchecked),                // push [rbx]
    // conditional moves load their source whatever the condition says
    ("cmove-taken", 8, 0xD8, &[0x31, 0xC0, 0x48, 0x0F, 0x44, 0x03], Dst::RaxZero),      // xor eax,eax ; cmove rax,[rbx]
    ("cmovne-untaken", 8, 0xE0, &[0x31, 0xC0, 0x48, 0x0F, 0x45, 0x03], Dst::Unchecked), // xor eax,eax ; cmovne rax,[rbx]
];

/// One lazily-faulted, read-only, MAP_NORESERVE zero mapping of 2^40 bytes: valid memory that a
/// correct bounds check never touches; serves write lengths no Vec could hold.
fn big_zero() -> &'static [u8] {
    use std::sync::OnceLock;
    static P: OnceLock<usize> = OnceLock::new();
    let p = *P.get_or_init(|| {
        let p = unsafe {
            libc::mmap(
                std::ptr::null_mut(),
                1usize << 40,
                libc::PROT_READ,
                libc::MAP_PRIVATE | libc::MAP_ANONYMOUS | libc::MAP_NORESERVE,
                -1,
                0,
            )
        };
        if p == libc::MAP_FAILED {
            0
        } else {
            p as usize
        }
    });
    if p == 0 {
        &[]
    } else {
        unsafe { std::slice::from_raw_parts(p as *const u8, 1usize << 40) }
    }
}

#[derive(Clone, Debug, PartialEq, Serialize, Deserialize)]
pub enum Op {
    WriteBytes { addr: u64, len: u64 },
    WriteN { width: u32, addr: u64 },
    GuestStore { width: u32, addr: u64 },
}

#[derive(Clone, Debug, PartialEq, Eq, Hash)]
pub struct M {
    /// (start, len) of the data areas
    pub areas: Vec<(u64, u64)>,
    pub bytes: BTreeMap<u64, u8>,
    pub writes: u64,
}

pub struct C08 {
    pub thorough: bool,
}

fn pat(addr: u64, i: u64, salt: u64) -> u8 {
    (addr.wrapping_mul(3).wrapping_add(i.wrapping_mul(7)).wrapping_add(0x41).wrapping_add(salt.wrapping_mul(0x11))) as u8
}

impl M {
    fn area_of(&self, addr: u64, len: u64) -> Option<(u64, u64)> {
        // valid iff [addr, addr+len) lies inside one area; computed in 128 bits, so an access that
        // ends exactly at 2^64 inside an area that ends there is valid, one that wraps is not
        let end = addr as u128 + len as u128;
        self.areas
            .iter()
            .cloned()
            .find(|(s, l)| *s <= addr && end <= *s as u128 + *l as u128 && (addr as u128) < *s as u128 + *l as u128)
    }
    fn addr_alphabet(&self) -> Vec<u64> {
        let mut v: Vec<u64> = vec![];
        for (s, l) in &self.areas {
            let e = s.wrapping_add(*l);
            for a in [
                s.wrapping_sub(1),
                *s,
                s.wrapping_add(1),
                s.wrapping_add(l / 2),
                e.wrapping_sub(16),
                e.wrapping_sub(15),
                e.wrapping_sub(8),
                e.wrapping_sub(7),
                e.wrapping_sub(4),
                e.wrapping_sub(3),
                e.wrapping_sub(2),
                e.wrapping_sub(1),
                e,
                e.wrapping_add(1),
            ] {
                if !v.contains(&a) {
                    v.push(a);
                }
            }
        }
        for a in [0u64, 1 << 63, u64::MAX - 15, u64::MAX - 7, u64::MAX] {
            if !v.contains(&a) {
                v.push(a);
            }
        }
        v
    }
}

fn mk(areas: &[(u64, u64)]) -> Option<(Axecutor, M)> {
    let mut code = vec![0x90u8; 0x100];
    for (_w, off, b) in G_LOAD.iter().chain(G_STORE.iter()) {
        code[*off as usize..*off as usize + b.len()].copy_from_slice(b);
    }
    for (_n, _l, off, b, _d) in G_LOADX.iter() {
        code[*off as usize..*off as usize + b.len()].copy_from_slice(b);
    }
    let mut ax = Axecutor::new(&code, CODE_AT, CODE_AT).ok()?;
    let mut m = M {
        areas: areas.to_vec(),
        bytes: BTreeMap::new(),
        writes: 0,
    };
    for (s, l) in areas {
        let data: Vec<u8> = (0..*l).map(|i| pat(*s, i, 9)).collect();
        for (i, b) in data.iter().enumerate() {
            m.bytes.insert(s.wrapping_add(i as u64), *b);
        }
        match guarded(|| ax.mem_init_area(*s, data)) {
            Ok(Ok(())) => {}
            _ => return None,
        }
    }
    for k in 0..16 {
        ax.reg_write_64(crate::emu::GPR64[k], crate::emu::filler_gpr(k)).unwrap();
    }
    Some((ax, m))
}

fn area_fp(ax: &Axecutor) -> u64 {
    let mut f = crate::common::Fp::new();
    let mut areas = ax.verif_areas();
    areas.sort_by_key(|a| (a.start, a.length));
    for a in &areas {
        f.u64(a.start);
        f.u64(a.length);
        f.u64(a.access as u64);
        f.bytes(&a.data);
    }
    f.u64(ax.verif_finished() as u64);
    f.0
}

impl C08 {
    /// The complete read battery against the model; returns the first disagreement.
    fn read_battery(&self, ax: &mut Axecutor, m: &M, after: &str, out: &mut Vec<Divergence>) {
        let before = area_fp(ax);
        let lens: [u64; 12] = [0, 1, 2, 4, 8, 16, 0x20, 0x21, 1 << 32, 1 << 63, u64::MAX - 15, u64::MAX];
        for addr in m.addr_alphabet() {
            for len in lens {
                let r = guarded(|| ax.mem_read_bytes(addr, len).map_err(|e| e.to_string()));
                let cls = len_class(len);
                match r {
                    Err(p) => { soft_push(out, div(format!("read_bytes|panic@{}|{}", p.tag(), cls), format!("{after}: mem_read_bytes({addr:#x}, {len:#x}) panicked: {}", crate::emu::first_line(&p.msg)))); }
                    Ok(r) => {
                        if len == 0 {
                            continue; // only "no crash, no change" is demanded
                        }
                        match (m.area_of(addr, len), r) {
                            (Some(_), Ok(bytes)) => {
                                let want: Vec<u8> = (0..len).map(|i| m.bytes[&(addr + i)]).collect();
                                if bytes != want {
                                    { soft_push(out, div(format!("read_bytes|wrong-bytes|{cls}"), format!("{after}: mem_read_bytes({addr:#x}, {len}) = {bytes:02x?}, byte-map model {want:02x?}"))); }
                                }
                            }
                            (Some(_), Err(e)) => { soft_push(out, div(format!("read_bytes|rejected-valid|{cls}"), format!("{after}: mem_read_bytes({addr:#x}, {len}) failed: {}", crate::emu::first_line(&e)))); }
                            (None, Ok(b)) => { soft_push(out, div(format!("read_bytes|accepted-invalid|{cls}"), format!("{after}: mem_read_bytes({addr:#x}, {len:#x}) returned {} bytes although the range is not inside one area", b.len()))); }
                            (None, Err(_)) => {}
                        }
                    }
                }
            }
            for width in [8u32, 16, 32, 64, 128] {
                let n = (width / 8) as u64;
                let r = guarded(|| match width {
                    8 => ax.mem_read_8(addr).map(|v| v as u128),
                    16 => ax.mem_read_16(addr).map(|v| v as u128),
                    32 => ax.mem_read_32(addr).map(|v| v as u128),
                    64 => ax.mem_read_64(addr).map(|v| v as u128),
                    _ => ax.mem_read_128(addr),
                }
                .map_err(|e| e.to_string()));
                match r {
                    Err(p) => { soft_push(out, div(format!("read{width}|panic@{}", p.tag()), format!("{after}: mem_read_{width}({addr:#x}) panicked: {}", crate::emu::first_line(&p.msg)))); }
                    Ok(r) => match (m.area_of(addr, n), r) {
                        (Some(_), Ok(v)) => {
                            let mut want: u128 = 0;
                            for i in 0..n {
                                want |= (m.bytes[&(addr + i)] as u128) << (8 * i);
                            }
                            if v != want {
                                { soft_push(out, div(format!("read{width}|disagrees-with-bytes"), format!("{after}: mem_read_{width}({addr:#x}) = {v:#x}, little-endian bytes give {want:#x}"))); }
                            }
                        }
                        (Some(_), Err(e)) => { soft_push(out, div(format!("read{width}|rejected-valid"), format!("{after}: mem_read_{width}({addr:#x}) failed: {}", crate::emu::first_line(&e)))); }
                        (None, Ok(v)) => { soft_push(out, div(format!("read{width}|accepted-invalid"), format!("{after}: mem_read_{width}({addr:#x}) = {v:#x} outside any area"))); }
                        (None, Err(_)) => {}
                    },
                }
            }
        }
        if area_fp(ax) != before {
            { soft_push(out, div("read|state-changed", format!("{after}: a read changed memory"))); }
        }
        // guest loads (on a clone: they advance RIP / the instruction count)
        for addr in m.addr_alphabet() {
            for (width, off, _) in G_LOAD.iter() {
                let mut g = ax.clone();
                g.reg_write_64(SR::RBX, addr).unwrap();
                g.reg_write_64(SR::RAX, 0x1111_2222_3333_4444).unwrap();
                g.reg_write_64(SR::RIP, CODE_AT + off).unwrap();
                let n = (*width / 8) as u64;
                let so = crate::emu::step(&mut g);
                match (m.area_of(addr, n), so) {
                    (_, StepOut::Panic(p)) => { soft_push(out, div(format!("guest-load{width}|panic@{}", p.tag()), format!("{after}: guest load of {width} bits at {addr:#x} panicked: {}", crate::emu::first_line(&p.msg)))); }
                    (Some(_), StepOut::Ok(_)) => {
                        let mut want: u64 = 0;
                        for i in 0..n {
                            want |= (m.bytes[&(addr + i)] as u64) << (8 * i);
                        }
                        let rax = g.reg_read_64(SR::RAX).unwrap();
                        let got = if *width == 64 { rax } else { rax & ((1u64 << width) - 1) };
                        if got != want {
                            { soft_push(out, div(format!("guest-load{width}|wrong-value"), format!("{after}: guest load of {width} bits at {addr:#x} = {got:#x}, model {want:#x}"))); }
                        }
                    }
                    (Some(_), StepOut::Err(e)) => { soft_push(out, div(format!("guest-load{width}|rejected-valid"), format!("{after}: guest load at {addr:#x} failed: {}", crate::emu::first_line(&e)))); }
                    (None, StepOut::Ok(_)) => { soft_push(out, div(format!("guest-load{width}|accepted-invalid"), format!("{after}: guest load of {width} bits at {addr:#x} succeeded outside any area"))); }
                    (None, StepOut::Err(_)) => {
                        if area_fp(&g) != before {
                            { soft_push(out, div(format!("guest-load{width}|state-changed-on-reject"), format!("{after}: failing guest load at {addr:#x} changed memory"))); }
                        }
                    }
                }
            }
        }
        // loads through other instructions (their handlers fetch the operand themselves); the
        // path does not depend on the write history, so the first two levels are enough
        if m.writes <= 1 {
            for addr in m.addr_alphabet() {
                for (name, n, off, code, dst) in G_LOADX.iter() {
                    let mut g = ax.clone();
                    g.reg_write_64(SR::RBX, addr).unwrap();
                    g.reg_write_64(SR::RAX, 0x1111_2222_3333_4444).unwrap();
                    g.reg_write_128(crate::emu::XMM[0], 0x5555_6666_7777_8888_9999_AAAA_BBBB_CCCCu128).unwrap();
                    g.reg_write_64(SR::RIP, CODE_AT + off).unwrap();
                    // a stack inside the first non-empty area, one slot free on either side
                    let sp = m.areas.iter().find(|(_, l)| *l >= 0x20).map(|(s, _)| s.wrapping_add(0x10)).unwrap_or(0);
                    g.reg_write_64(SR::RSP, sp).unwrap();
                    let mut so = crate::emu::step(&mut g);
                    if code.len() >= 4 && code[0] == 0x31 {
                        // two-instruction probe: the load is the second instruction
                        if let StepOut::Ok(_) = so {
                            so = crate::emu::step(&mut g);
                        }
                    }
                    match (m.area_of(addr, *n), so) {
                        (_, StepOut::Panic(p)) => { soft_push(out, div(format!("guest-{name}|panic@{}", p.tag()), format!("{after}: {name} load at {addr:#x} panicked: {}", crate::emu::first_line(&p.msg)))); }
                        (Some(_), StepOut::Ok(_)) => {
                            let mut want: u128 = 0;
                            for i in 0..*n {
                                want |= (m.bytes[&(addr + i)] as u128) << (8 * i);
                            }
                            let (got, want) = match dst {
                                Dst::Xmm => (g.reg_read_128(crate::emu::XMM[0]).unwrap(), want),
                                Dst::RaxZero => (g.reg_read_64(SR::RAX).unwrap() as u128, want),
                                Dst::RaxSign32 => (g.reg_read_64(SR::RAX).unwrap() as u128, want as u32 as i32 as i64 as u64 as u128),
                                Dst::Rip => (g.reg_read_64(SR::RIP).unwrap() as u128, want),
                                Dst::Unchecked => (0, 0),
                            };
                            if got != want {
                                { soft_push(out, div(format!("guest-{name}|wrong-value"), format!("{after}: {name} load at {addr:#x} = {got:#x}, the bytes give {want:#x}"))); }
                            }
                        }
                        (Some(_), StepOut::Err(er)) => {
                            // a form this tree does not implement is not a memory-store matter
                            if !crate::emu::is_unimplemented_msg(&er) {
                                { soft_push(out, div(format!("guest-{name}|rejected-valid"), format!("{after}: {name} load at {addr:#x} failed: {}", crate::emu::first_line(&er)))); }
                            }
                        }
                        (None, StepOut::Ok(_)) => { soft_push(out, div(format!("guest-{name}|accepted-invalid"), format!("{after}: {name} load of {n} bytes at {addr:#x} succeeded outside any area"))); }
                        (None, StepOut::Err(_)) => {
                            if area_fp(&g) != before {
                                { soft_push(out, div(format!("guest-{name}|state-changed-on-reject"), format!("{after}: failing {name} load at {addr:#x} changed memory"))); }
                            }
                            let sp_now = g.reg_read_64(SR::RSP).unwrap();
                            if sp_now != sp {
                                { soft_push(out, div(format!("guest-{name}|rsp-changed-on-reject"), format!("{after}: failing {name} load at {addr:#x} moved RSP from {sp:#x} to {sp_now:#x}"))); }
                            }
                        }
                    }
                }
            }
        }
    }
}

fn soft_push(out: &mut Vec<Divergence>, d: Divergence) {
    if !out.iter().any(|o| o.key == d.key) {
        out.push(d);
    }
}

fn len_class(len: u64) -> &'static str {
    if len == 0 {
        "len0"
    } else if len <= 0x21 {
        "small"
    } else if len <= 1 << 32 {
        "2^32"
    } else {
        "near-2^64"
    }
}

impl Spec for C08 {
    type Op = Op;
    type M = M;

    fn inits(&self) -> Vec<(String, Axecutor, M)> {
        let layouts: Vec<(&str, Vec<(u64, u64)>)> = vec![
            ("one-area", vec![(0x1000, 0x20)]),
            ("adjacent", vec![(0x1000, 0x20), (0x1020, 0x20)]),
            ("gap", vec![(0x1000, 0x20), (0x1030, 0x20)]),
            ("near-top", vec![(0u64.wrapping_sub(0x1020), 0x20)]),
            ("ends-at-2^64", vec![(0u64.wrapping_sub(0x20), 0x20)]),
            // an empty area covers no address: created first, it must not shadow the bytes of
            // an area created around it or at its own start afterwards
            ("empty-area-inside", vec![(0x1008, 0), (0x1000, 0x20)]),
            ("empty-area-at-start", vec![(0x1000, 0), (0x1000, 0x20)]),
            // address 0 is an address like any other once an area is mapped there
            ("starts-at-0", vec![(0, 0x20)]),
            // a second area whose LAST byte would be the first byte of the first area: creating
            // it is refused on a correct tree (then this layout does not exist); where it is
            // accepted, one address has two backing stores and byte / multi-byte accesses disagree
            ("one-byte-overlap-attempt", vec![(0x2000, 0x20), (0x1FE1, 0x20)]),
        ];
        let mut out = vec![];
        for (n, l) in layouts {
            if let Some((ax, m)) = mk(&l) {
                out.push((n.to_string(), ax, m));
            }
        }
        out
    }

    fn fingerprint(&self, sut: &Axecutor) -> u64 {
        area_fp(sut)
    }

    fn ops(&self, m: &M, depth: usize) -> Vec<Op> {
        let mut ops = vec![];
        let addrs = m.addr_alphabet();
        let wl: Vec<u64> = if depth == 0 || self.thorough {
            vec![0, 1, 2, 4, 8, 16, 0x20, 0x21, 1 << 32]
        } else {
            vec![1, 8, 0x20, 0x21]
        };
        for a in &addrs {
            for l in &wl {
                ops.push(Op::WriteBytes { addr: *a, len: *l });
            }
            for w in [8u32, 16, 32, 64, 128] {
                ops.push(Op::WriteN { width: w, addr: *a });
            }
            for w in [8u32, 16, 32, 64] {
                ops.push(Op::GuestStore { width: w, addr: *a });
            }
        }
        ops
    }

    fn apply(&self, ax: &mut Axecutor, m: &M, op: &Op, soft: &mut Vec<Divergence>) -> Result<Option<M>, Divergence> {
        let before = area_fp(ax);
        let mut m2 = m.clone();
        let salt = m.writes;
        let (addr, n, kind, result): (u64, u64, String, Result<Result<(), String>, crate::emu::PanicInfo>) = match op {
            Op::WriteBytes { addr, len } => {
                let owned: Vec<u8>;
                let data: &[u8] = if *len <= 0x40 {
                    owned = (0..*len).map(|i| pat(*addr, i, salt)).collect();
                    &owned
                } else {
                    let z = big_zero();
                    if (z.len() as u64) < *len {
                        return Ok(None);
                    }
                    &z[..*len as usize]
                };
                let r = guarded(|| ax.mem_write_bytes(*addr, data).map_err(|e| e.to_string()));
                (*addr, *len, format!("write_bytes|{}", len_class(*len)), r)
            }
            Op::WriteN { width, addr } => {
                let n = (*width / 8) as u64;
                let mut v: u128 = 0;
                for i in 0..n {
                    v |= (pat(*addr, i, salt) as u128) << (8 * i);
                }
                let r = guarded(|| {
                    match width {
                        8 => ax.mem_write_8(*addr, v as u64),
                        16 => ax.mem_write_16(*addr, v as u64),
                        32 => ax.mem_write_32(*addr, v as u64),
                        64 => ax.mem_write_64(*addr, v as u64),
                        _ => ax.mem_write_128(*addr, v),
                    }
                    .map_err(|e| e.to_string())
                });
                (*addr, n, format!("write{width}"), r)
            }
            Op::GuestStore { width, addr } => {
                let n = (*width / 8) as u64;
                let mut v: u64 = 0;
                for i in 0..n {
                    v |= (pat(*addr, i, salt) as u64) << (8 * i);
                }
                let off = G_STORE.iter().find(|g| g.0 == *width).unwrap().1;
                ax.reg_write_64(SR::RBX, *addr).unwrap();
                // bits above the operand width must not reach memory
                let hi = if *width == 64 { 0 } else { 0xFFFF_FFFF_FFFF_FFFFu64 << *width };
                ax.reg_write_64(SR::RAX, v | (hi & 0xDEAD_BEEF_DEAD_BEEF)).unwrap();
                ax.reg_write_64(SR::RIP, CODE_AT + off).unwrap();
                let r = match crate::emu::step(ax) {
                    StepOut::Ok(_) => Ok(Ok(())),
                    StepOut::Err(e) => Ok(Err(e)),
                    StepOut::Panic(p) => Err(p),
                };
                (*addr, n, format!("guest-store{width}"), r)
            }
        };
        let result = match result {
            Err(p) => return Err(div(format!("{kind}|panic@{}", p.tag()), format!("{op:?} panicked: {}", crate::emu::first_line(&p.msg)))),
            Ok(r) => r,
        };
        let changed;
        if n == 0 {
            // zero-length: only "no crash, no change"
            if area_fp(ax) != before {
                return Err(div(format!("{kind}|zero-length-changed-state"), format!("{op:?} changed memory")));
            }
            changed = false;
        } else {
            match (m.area_of(addr, n), result) {
                (Some(_), Ok(())) => {
                    for i in 0..n {
                        m2.bytes.insert(addr + i, pat(addr, i, salt));
                    }
                    m2.writes += 1;
                    changed = true;
                }
                (Some(_), Err(e)) => return Err(div(format!("{kind}|rejected-valid"), format!("{op:?} failed although [{addr:#x}, +{n}) lies inside one area: {}", crate::emu::first_line(&e)))),
                (None, Ok(())) => return Err(div(format!("{kind}|accepted-invalid"), format!("{op:?} succeeded although [{addr:#x}, +{n:#x}) is not inside one area"))),
                (None, Err(_)) => {
                    if area_fp(ax) != before {
                        return Err(div(format!("{kind}|state-changed-on-reject"), format!("rejected {op:?} changed memory")));
                    }
                    changed = false;
                }
            }
        }
        if !changed {
            // same memory as the parent state: nothing new to explore below it
            return Ok(None);
        }
        // the whole store is read back through every read path
        self.read_battery(ax, &m2, &format!("after {op:?}"), soft);
        Ok(Some(m2))
    }

    fn invariants(&self, _sut: &Axecutor, _m: &M) -> Vec<Divergence> {
        vec![]
    }

    fn crash_class(&self, _m: &M, op: &Op) -> String {
        match op {
            Op::WriteBytes { len, .. } => format!("write_bytes|{}", len_class(*len)),
            Op::WriteN { width, .. } => format!("write{width}"),
            Op::GuestStore { width, .. } => format!("guest-store{width}"),
        }
    }
    fn risky(&self, _op: &Op) -> bool {
        false
    }
}

pub fn run(tier: Tier) -> i32 {
    let mut run = Run::new("C08", tier.clone());
    let spec = Arc::new(C08 { thorough: tier.is_thorough() });
    let spec_c = Arc::clone(&spec);
    let confirm_one = move |w: &serde_json::Value| -> Result<Vec<String>, String> {
        let r = confirm_stexp(&*spec_c, w)?;
        if r.is_empty() && w["history"].as_array().map(|a| a.is_empty()).unwrap_or(false) {
            // finding of the initial read battery
            let label = w["init"].as_str().unwrap_or("");
            for (l, mut ax, m) in spec_c.inits() {
                if l == label {
                    let mut v = vec![];
                    spec_c.read_battery(&mut ax, &m, &format!("initial state {l}"), &mut v);
                    return Ok(v.into_iter().map(|d| d.key).collect());
                }
            }
        }
        Ok(r)
    };
    if let Some(art) = crate::common::replay_artefact() {
        return crate::common::finish_replay("C08", &art, &|ws| ws.iter().map(|w| confirm_one(w)).collect());
    }
    // the read battery of the initial states (stexp runs invariants only; do it here)
    for (label, mut ax, m) in spec.inits() {
        let mut v = vec![];
        spec.read_battery(&mut ax, &m, &format!("initial state {label}"), &mut v);
        for d in v {
            run.findings.add(&d.key, || d.what.clone(), || json!({"engine": "stexp", "init": label, "init_index": 0, "history": []}));
        }
    }
    let depth = if tier.is_thorough() { 3 } else { 2 };
    let out = run_stexp(Arc::clone(&spec), depth, crate::common::ncpu(), 0, if tier.is_thorough() { 1500 } else { 45 });
    st_evidence(&mut run, &out, depth, "transitions: mem_write_bytes (9 lengths incl. 0, area_len+1, 2^32), mem_write_8..128, guest MOV stores of 8..64 bits, at 14 edge addresses per area + {0, 2^63, 2^64-16, 2^64-8, 2^64-1}; after every successful write the complete read battery (mem_read_bytes x 12 lengths up to 2^64-1, mem_read_8..128, guest loads) is compared with the byte map; 8 layouts (one area, adjacent, gap, near the top, ending at 2^64, an empty area inside / at the start of a later area)");
    run.cov("layouts_created", json!(spec.inits().iter().map(|i| i.0.clone()).collect::<Vec<_>>()));
    // (no guard on the number of layouts: whether an empty area may be created at a given place
    // is not C08's business; the evidence lists the layouts that exist)
    run.guard("layouts", spec.inits().len() >= 5, format!("{} layouts could be created", spec.inits().len()));
    run.guard("states", out.states >= 200, format!("{} states", out.states));
    run.assume("zero-length accesses: only no-crash/no-change is demanded");
    run.finish(&confirm_one)
}
