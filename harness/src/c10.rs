//! C10 — memory areas never overlap; allocation and resizing respect existing areas.

use crate::common::{Run, Tier};
use crate::emu::{guarded, StepOut};
use crate::stexp::*;
use ax_x86::axecutor::Axecutor;
use ax_x86::helpers::syscalls::Syscall;
use ax_x86::state::registers::SupportedRegister as SR;
use serde::{Deserialize, Serialize};
use serde_json::json;
use std::sync::Arc;

#[derive(Clone, Debug, PartialEq, Serialize, Deserialize)]
pub enum Op {
    InitArea { start: u64, len: u64 },
    InitZero { start: u64, len: u64 },
    ZeroAnywhere { len: u64 },
    Anywhere { len: u64 },
    InitStack { len: u64 },
    /// which: index into the sorted list of modelled non-code areas, or 99 = absent address
    Resize { which: usize, new: u64 },
    Prot { which: usize, prot: u32 },
    Brk { grow: u64 },
}

#[derive(Clone, Debug, PartialEq, Eq, Hash)]
pub struct Area {
    pub start: u64,
    pub data: Vec<u8>,
    pub access: u32,
    pub code: bool,
}

#[derive(Clone, Debug, PartialEq, Eq, Hash)]
pub struct M {
    pub areas: Vec<Area>,
    pub creations: u64,
    pub syscall_at: u64,
}

pub struct C10 {
    pub thorough: bool,
}

const STARTS: [u64; 7] = [0x0, 0xFF8, 0x1000, 0x1008, 0x1010, 0x1020, 0x2000];
// 9 = one byte more than the distance between neighbouring starts (0xFF8 -> 0x1000, 0x1008 ->
// 0x1010): the new area's LAST byte is the neighbour's first, an overlap of exactly one byte
const LENS: [u64; 7] = [0, 1, 8, 9, 0x10, 0x20, 0x30];

fn overlaps(a: u64, alen: u64, b: u64, blen: u64) -> bool {
    if alen == 0 || blen == 0 {
        return false;
    }
    let (a0, a1) = (a as u128, a as u128 + alen as u128);
    let (b0, b1) = (b as u128, b as u128 + blen as u128);
    a0 < b1 && b0 < a1
}

impl M {
    fn sorted(&mut self) {
        self.areas.sort_by(|a, b| (a.start, a.data.len()).cmp(&(b.start, b.data.len())));
    }
    fn collides(&self, start: u64, len: u64, except: Option<usize>) -> bool {
        self.areas
            .iter()
            .enumerate()
            .any(|(k, a)| Some(k) != except && overlaps(start, len, a.start, a.data.len() as u64))
    }
    fn class(&self) -> String {
        format!("{}areas", self.areas.len())
    }
    fn non_code(&self) -> Vec<usize> {
        self.areas.iter().enumerate().filter(|(_, a)| !a.code).map(|(k, _)| k).collect()
    }
}

fn model_of(ax: &Axecutor, code_starts: &[u64]) -> Vec<Area> {
    let mut v: Vec<Area> = ax
        .verif_areas()
        .into_iter()
        .map(|a| Area {
            start: a.start,
            code: code_starts.contains(&a.start),
            data: a.data,
            access: a.access,
        })
        .collect();
    v.sort_by(|a, b| (a.start, a.data.len()).cmp(&(b.start, b.data.len())));
    v
}

/// relation of a request to the modelled areas, for finding keys
fn relation(m: &M, start: u64, len: u64) -> &'static str {
    if len == 0 {
        return "zero-length";
    }
    let mut rel = "disjoint";
    for a in &m.areas {
        let alen = a.data.len() as u64;
        if !overlaps(start, len, a.start, alen) {
            continue;
        }
        let (s, e) = (start as u128, start as u128 + len as u128);
        let (as_, ae) = (a.start as u128, a.start as u128 + alen as u128);
        rel = if s >= as_ && s < ae {
            "starts-inside-existing"
        } else if s < as_ && e >= ae {
            "encloses-existing"
        } else {
            "ends-inside-existing"
        };
        break;
    }
    rel
}

fn pairwise(ax: &Axecutor) -> Option<String> {
    let a = ax.verif_areas();
    for i in 0..a.len() {
        for j in i + 1..a.len() {
            if overlaps(a[i].start, a[i].length, a[j].start, a[j].length) {
                return Some(format!(
                    "areas [{:#x}, +{:#x}) and [{:#x}, +{:#x}) overlap",
                    a[i].start, a[i].length, a[j].start, a[j].length
                ));
            }
        }
    }
    None
}

fn elf_two_segments() -> Vec<u8> {
    crate::elfgen::simple_two_segment()
}

impl Spec for C10 {
    type Op = Op;
    type M = M;

    fn inits(&self) -> Vec<(String, Axecutor, M)> {
        let mut out = vec![];
        // code: syscall; padding so RIP never reaches the end of the code
        let code = [0x0F, 0x05, 0x90, 0x90, 0x90, 0x90, 0x90, 0x90];
        let mk = |label: &str, mut ax: Axecutor, code_starts: Vec<u64>, syscall_at: u64| {
            ax.handle_syscalls(vec![Syscall::Brk]).expect("brk handler");
            for k in 0..16 {
                ax.reg_write_64(crate::emu::GPR64[k], crate::emu::filler_gpr(k)).unwrap();
            }
            let m = M {
                areas: model_of(&ax, &code_starts),
                creations: 0,
                syscall_at,
            };
            (label.to_string(), ax, m)
        };
        out.push(mk("code@0x1000", Axecutor::new(&code, 0x1000, 0x1000).unwrap(), vec![0x1000], 0x1000));
        out.push(mk("code@0x400000", Axecutor::new(&code, 0x400000, 0x400000).unwrap(), vec![0x400000], 0x400000));
        out.push(mk("code@0x3000", Axecutor::new(&code, 0x3000, 0x3000).unwrap(), vec![0x3000], 0x3000));
        let elf = elf_two_segments();
        if let Ok(ax) = Axecutor::from_binary(&elf) {
            let starts: Vec<u64> = ax.verif_areas().iter().map(|a| a.start).collect();
            let entry = crate::emu::rip(&ax);
            out.push(mk("elf", ax, starts.clone(), entry));
            let mut ax2 = Axecutor::from_binary(&elf).unwrap();
            if ax2
                .init_stack_program_start(0x40, vec!["prog".into()], vec!["A=b".into()])
                .is_ok()
            {
                let mut m = mk("elf+stack", ax2, starts, entry);
                // everything but the image is fair game for resize/prot
                let _ = &mut m;
                out.push(m);
            }
        }
        out
    }

    fn ops(&self, m: &M, _depth: usize) -> Vec<Op> {
        let mut ops = vec![];
        for s in STARTS {
            for l in LENS {
                ops.push(Op::InitArea { start: s, len: l });
                if l == 0x10 || l == 0 || self.thorough {
                    ops.push(Op::InitZero { start: s, len: l });
                }
            }
        }
        // the last bytes of the address space: a one-byte area on the very last byte, areas that
        // end exactly at 2^64, and requests that would wrap
        for (s, l) in [(u64::MAX, 1u64), (u64::MAX - 0xF, 0x10), (u64::MAX - 0xF, 8), (u64::MAX - 0xF, 0x11), (u64::MAX - 0x1F, 0x20)] {
            ops.push(Op::InitArea { start: s, len: l });
        }
        for l in [0u64, 1, 0x10, 0x18] {
            ops.push(Op::ZeroAnywhere { len: l });
        }
        for l in [0u64, 1, 16] {
            ops.push(Op::Anywhere { len: l });
        }
        for l in [0u64, 16, 0x20] {
            ops.push(Op::InitStack { len: l });
        }
        let nc = m.non_code();
        for (n, _k) in nc.iter().enumerate().take(4) {
            for new in [0u64, 1, 8, 9, 0x10, 0x18, 0x30] {
                ops.push(Op::Resize { which: n, new });
            }
            for prot in [0u32, 1, 3, 7] {
                ops.push(Op::Prot { which: n, prot });
            }
        }
        ops.push(Op::Resize { which: 99, new: 0x10 });
        ops.push(Op::Prot { which: 99, prot: 3 });
        ops.push(Op::Prot { which: 0, prot: 8 });
        ops.push(Op::Brk { grow: 0 });
        ops.push(Op::Brk { grow: 0x10 });
        ops.push(Op::Brk { grow: 0x1000 });
        ops
    }

    fn apply(&self, ax: &mut Axecutor, m: &M, op: &Op, _soft: &mut Vec<Divergence>) -> Result<Option<M>, Divergence> {
        let before_fp = crate::emu::fingerprint(ax);
        let mut m2 = m.clone();
        let code_starts: Vec<u64> = m.areas.iter().filter(|a| a.code).map(|a| a.start).collect();
        let fill = (0x40 + (m.creations % 0x40)) as u8;
        match op {
            Op::InitArea { start, len } | Op::InitZero { start, len } => {
                let zero = matches!(op, Op::InitZero { .. });
                let data = if zero { vec![0u8; *len as usize] } else { vec![fill; *len as usize] };
                let kind = if zero { "init_zero" } else { "init_area" };
                let rel = relation(m, *start, *len);
                let d2 = data.clone();
                let r = guarded(|| {
                    if zero {
                        ax.mem_init_zero(*start, *len)
                    } else {
                        ax.mem_init_area(*start, d2)
                    }
                    .map_err(|e| e.to_string())
                });
                let r = match r {
                    Err(p) => return Err(div(format!("{kind}|panic@{}|{rel}", p.tag()), format!("{op:?} panicked: {}", crate::emu::first_line(&p.msg)))),
                    Ok(r) => r,
                };
                match r {
                    Ok(()) => {
                        if m.collides(*start, *len, None) {
                            return Err(div(format!("{kind}|accepted-overlap|{rel}"), format!("{op:?} accepted although it overlaps an existing area ({rel}); areas: {}", show(m))));
                        }
                        if *len > 0 && (*start as u128 + *len as u128) > (1u128 << 64) {
                            return Err(div(format!("{kind}|accepted-wrapping|{rel}"), format!("{op:?} accepted although it wraps the address space")));
                        }
                        m2.areas.push(Area { start: *start, data, access: 3, code: false });
                        m2.creations += 1;
                        m2.sorted();
                    }
                    Err(_) => {
                        if crate::emu::fingerprint(ax) != before_fp {
                            return Err(div(format!("{kind}|state-changed-on-reject|{rel}"), format!("rejected {op:?} changed the machine")));
                        }
                        // rejection of a non-overlapping request is not claimed by the property
                    }
                }
            }
            Op::ZeroAnywhere { len } | Op::Anywhere { len } => {
                let zero = matches!(op, Op::ZeroAnywhere { .. });
                let data = if zero { vec![0u8; *len as usize] } else { vec![fill; *len as usize] };
                let kind = if zero { "zero_anywhere" } else { "anywhere" };
                let lc = if *len == 0 { "len0" } else { "len>0" };
                let d2 = data.clone();
                let r = guarded(|| {
                    if zero {
                        ax.mem_init_zero_anywhere(*len)
                    } else {
                        ax.mem_init_anywhere(d2, Some("blob".into()))
                    }
                    .map_err(|e| e.to_string())
                });
                let r = match r {
                    Err(p) => return Err(div(format!("{kind}|panic@{}|{lc}", p.tag()), format!("{op:?} panicked: {}", crate::emu::first_line(&p.msg)))),
                    Ok(r) => r,
                };
                match r {
                    Ok(start) => {
                        if *len > 0 && m.collides(start, *len, None) {
                            return Err(div(format!("{kind}|returned-occupied-range|{lc}"), format!("{op:?} returned {start:#x}, which overlaps an existing area; areas: {}", show(m))));
                        }
                        // the area must exist with the requested length and content
                        let found = ax.verif_areas().into_iter().filter(|a| a.start == start && a.length == *len).count();
                        if found == 0 {
                            return Err(div(format!("{kind}|area-missing|{lc}"), format!("{op:?} returned {start:#x} but no area of length {len:#x} starts there")));
                        }
                        if *len > 0 {
                            match ax.verif_areas().into_iter().find(|a| a.start == start && a.length == *len) {
                                Some(a) if a.data == data => {}
                                _ => return Err(div(format!("{kind}|wrong-content|{lc}"), format!("{op:?}: area at {start:#x} does not hold the requested bytes"))),
                            }
                        }
                        m2.areas.push(Area { start, data, access: 3, code: false });
                        m2.creations += 1;
                        m2.sorted();
                    }
                    Err(e) => {
                        // the address space is practically empty: a failure to find room is a failure
                        if *len > 0 {
                            return Err(div(format!("{kind}|failed|{lc}"), format!("{op:?} failed: {}", crate::emu::first_line(&e))));
                        }
                        if crate::emu::fingerprint(ax) != before_fp {
                            return Err(div(format!("{kind}|state-changed-on-reject|{lc}"), format!("failed {op:?} changed the machine")));
                        }
                    }
                }
            }
            Op::InitStack { len } => {
                let lc = if *len == 0 { "len0" } else { "len>0" };
                let r = guarded(|| ax.init_stack(*len).map_err(|e| e.to_string()));
                let r = match r {
                    Err(p) => return Err(div(format!("init_stack|panic@{}|{lc}", p.tag()), format!("{op:?} panicked: {}", crate::emu::first_line(&p.msg)))),
                    Ok(r) => r,
                };
                match r {
                    Ok(start) => {
                        if *len > 0 && m.collides(start, *len, None) {
                            return Err(div(format!("init_stack|returned-occupied-range|{lc}"), format!("{op:?} placed the stack at {start:#x} over an existing area; areas: {}", show(m))));
                        }
                        m2.areas.push(Area { start, data: vec![0; *len as usize], access: 3, code: false });
                        m2.creations += 1;
                        m2.sorted();
                    }
                    Err(e) => {
                        if *len > 0 {
                            return Err(div(format!("init_stack|failed|{lc}"), format!("{op:?} failed: {}", crate::emu::first_line(&e))));
                        }
                    }
                }
            }
            Op::Resize { which, new } => {
                let nc = m.non_code();
                let target = if *which == 99 { None } else { nc.get(*which).cloned() };
                let start = match target {
                    Some(k) => m.areas[k].start,
                    None => {
                        if *which != 99 {
                            return Ok(None);
                        }
                        0x5550
                    }
                };
                // two modelled areas with the same start (a zero-length twin) make "the area
                // with this start" ambiguous: not enumerated
                if target.is_some() && m.areas.iter().filter(|a| a.start == start).count() > 1 {
                    return Ok(None);
                }
                let r = guarded(|| ax.mem_resize_section(start, *new).map_err(|e| e.to_string()));
                let r = match r {
                    Err(p) => return Err(div(format!("resize|panic@{}", p.tag()), format!("mem_resize_section({start:#x}, {new:#x}) panicked: {}", crate::emu::first_line(&p.msg)))),
                    Ok(r) => r,
                };
                match target {
                    None => {
                        // absent start: only crash-freedom and "no change" on failure
                        if r.is_err() && crate::emu::fingerprint(ax) != before_fp {
                            return Err(div("resize|state-changed-on-reject|absent", format!("failed mem_resize_section({start:#x}, {new:#x}) changed the machine")));
                        }
                        if r.is_ok() {
                            return Ok(None);
                        }
                    }
                    Some(k) => {
                        // an extent that does not fit below 2^64 cannot be had: rejection is the
                        // only right answer, and it must change nothing
                        if *new > 0 && (start as u128 + *new as u128) > (1u128 << 64) {
                            if r.is_ok() {
                                return Err(div("resize|accepted-wrapping", format!("mem_resize_section({start:#x}, {new:#x}) accepted although the extent wraps the address space")));
                            }
                            if crate::emu::fingerprint(ax) != before_fp {
                                return Err(div("resize|state-changed-on-reject|wrapping", format!("failed mem_resize_section({start:#x}, {new:#x}) changed the machine")));
                            }
                            return Ok(None);
                        }
                        let collide = m.collides(start, *new, Some(k));
                        let cls = if collide { "collides-with-other" } else { "free" };
                        match (collide, r) {
                            (false, Err(e)) => {
                                return Err(div(format!("resize|rejected-without-collision|{}", if *new as usize >= m.areas[k].data.len() { "grow-or-same" } else { "shrink" }), format!("mem_resize_section({start:#x}, {new:#x}) failed although the new extent meets no other area: {}; areas: {}", crate::emu::first_line(&e), show(m))));
                            }
                            (true, Ok(())) => {
                                return Err(div(format!("resize|accepted-collision|{cls}"), format!("mem_resize_section({start:#x}, {new:#x}) succeeded although the new extent overlaps another area; areas: {}", show(m))));
                            }
                            (true, Err(_)) => {
                                if crate::emu::fingerprint(ax) != before_fp {
                                    return Err(div("resize|state-changed-on-reject|collides", format!("rejected mem_resize_section({start:#x}, {new:#x}) changed the machine")));
                                }
                            }
                            (false, Ok(())) => {
                                let old = m.areas[k].data.clone();
                                let mut nd = vec![0u8; *new as usize];
                                let c = old.len().min(nd.len());
                                nd[..c].copy_from_slice(&old[..c]);
                                m2.areas[k].data = nd;
                                m2.sorted();
                            }
                        }
                    }
                }
            }
            Op::Prot { which, prot } => {
                let nc = m.non_code();
                let target = if *which == 99 { None } else { nc.get(*which).cloned() };
                let start = match target {
                    Some(k) => m.areas[k].start,
                    None => {
                        if *which != 99 {
                            return Ok(None);
                        }
                        0x5550
                    }
                };
                if target.is_some() && m.areas.iter().filter(|a| a.start == start).count() > 1 {
                    return Ok(None);
                }
                let r = guarded(|| ax.mem_prot(start, *prot).map_err(|e| e.to_string()));
                let r = match r {
                    Err(p) => return Err(div(format!("prot|panic@{}", p.tag()), format!("mem_prot({start:#x}, {prot}) panicked: {}", crate::emu::first_line(&p.msg)))),
                    Ok(r) => r,
                };
                match (target, r) {
                    (Some(k), Ok(())) if *prot <= 7 => m2.areas[k].access = *prot,
                    (Some(_), Err(e)) if *prot <= 7 => return Err(div("prot|rejected-valid", format!("mem_prot({start:#x}, {prot}) failed: {}", crate::emu::first_line(&e)))),
                    (_, Ok(())) => return Err(div("prot|accepted-invalid", format!("mem_prot({start:#x}, {prot}) succeeded"))),
                    (_, Err(_)) => {
                        if crate::emu::fingerprint(ax) != before_fp {
                            return Err(div("prot|state-changed-on-reject", format!("failed mem_prot({start:#x}, {prot}) changed the machine")));
                        }
                    }
                }
            }
            Op::Brk { grow } => {
                // brk as an area creator: its own semantics are C13's; here the heap it makes or
                // moves must respect the other areas
                let cur = {
                    let mut g = ax.clone();
                    g.reg_write_64(SR::RAX, 12).unwrap();
                    g.reg_write_64(SR::RDI, 0).unwrap();
                    g.reg_write_64(SR::RIP, m.syscall_at).unwrap();
                    match crate::emu::step(&mut g) {
                        StepOut::Ok(_) => g.reg_read_64(SR::RAX).unwrap(),
                        _ => 0,
                    }
                };
                ax.reg_write_64(SR::RAX, 12).unwrap();
                ax.reg_write_64(SR::RDI, if *grow == 0 { 0 } else { cur.wrapping_add(*grow) }).unwrap();
                ax.reg_write_64(SR::RIP, m.syscall_at).unwrap();
                match crate::emu::step(ax) {
                    StepOut::Panic(p) => return Err(div(format!("brk|panic@{}", p.tag()), format!("{op:?} panicked: {}", crate::emu::first_line(&p.msg)))),
                    _ => {}
                }
                // adopt whatever heap the handler made (its extent is C13's subject) ...
                let now = model_of(ax, &code_starts);
                // ... but every area that existed must be untouched, except the heap itself
                m2.areas = now;
                m2.sorted();
            }
        }
        // the structured view must match the model exactly (except registers etc.)
        let view = model_of(ax, &code_starts);
        let mut want = m2.areas.clone();
        want.sort_by(|a, b| (a.start, a.data.len()).cmp(&(b.start, b.data.len())));
        if view != want {
            let kind = format!("{op:?}").split(|c: char| !c.is_alphanumeric()).next().unwrap_or("").to_string();
            return Err(div(
                format!("{kind}|area-list-differs-from-model"),
                format!("after {op:?} the area list is {} but the interval-set model says {}", show_areas(&view), show_areas(&want)),
            ));
        }
        Ok(Some(m2))
    }

    fn invariants(&self, sut: &Axecutor, _m: &M) -> Vec<Divergence> {
        match pairwise(sut) {
            Some(w) => vec![div("invariant|areas-overlap", w)],
            None => vec![],
        }
    }

    fn fingerprint(&self, sut: &Axecutor) -> u64 {
        // area list + heap bookkeeping + stack_top/RSP (init_stack writes them)
        let mut f = crate::common::Fp::new();
        let mut a = sut.verif_areas();
        a.sort_by(|x, y| (x.start, x.length).cmp(&(y.start, y.length)));
        for x in &a {
            f.u64(x.start);
            f.u64(x.length);
            f.u64(x.access as u64);
            f.bytes(&x.data);
            f.str(x.name.as_deref().unwrap_or(""));
        }
        f.str(&crate::emu::canon_syscall_state(&sut.verif_syscall_state_debug()));
        f.u64(sut.verif_stack_top());
        f.u64(sut.reg_read_64(SR::RSP).unwrap());
        f.u64(sut.verif_finished() as u64);
        f.0
    }

    fn crash_class(&self, m: &M, op: &Op) -> String {
        let kind = match op {
            Op::InitArea { len, .. } => format!("init_area|len{}", if *len == 0 { "0" } else { ">0" }),
            Op::InitZero { len, .. } => format!("init_zero|len{}", if *len == 0 { "0" } else { ">0" }),
            Op::ZeroAnywhere { len } => format!("zero_anywhere|len{}", if *len == 0 { "0" } else { ">0" }),
            Op::Anywhere { len } => format!("anywhere|len{}", if *len == 0 { "0" } else { ">0" }),
            Op::InitStack { len } => format!("init_stack|len{}", if *len == 0 { "0" } else { ">0" }),
            Op::Resize { .. } => "resize".to_string(),
            Op::Prot { .. } => "prot".to_string(),
            Op::Brk { .. } => "brk".to_string(),
        };
        let occupied = m.areas.iter().any(|a| a.start <= 0x1000 && 0x1000 < a.start + (a.data.len() as u64).max(1));
        format!("{kind}|{}", if occupied { "0x1000-occupied" } else { "0x1000-free" })
    }
    fn risky(&self, op: &Op) -> bool {
        matches!(op, Op::ZeroAnywhere { .. } | Op::Anywhere { .. } | Op::InitStack { .. } | Op::Brk { .. })
    }
}

fn show(m: &M) -> String {
    show_areas(&m.areas)
}
fn show_areas(a: &[Area]) -> String {
    let v: Vec<String> = a
        .iter()
        .map(|x| format!("[{:#x},+{:#x}){}", x.start, x.data.len(), if x.code { "c" } else { "" }))
        .collect();
    v.join(" ")
}

pub fn run(tier: Tier) -> i32 {
    let mut run = Run::new("C10", tier.clone());
    let spec = Arc::new(C10 { thorough: tier.is_thorough() });
    if let Some(art) = crate::common::replay_artefact() {
        return crate::common::finish_replay("C10", &art, &|ws| ws.iter().map(|w| confirm_stexp(&*spec, w)).collect());
    }
    // depth 3 in both tiers (the thorough tier adds mem_init_zero for every length); states at
    // the depth bound are not materialised (stexp.rs), which is what made 3 affordable for quick
    let depth = 3;
    let out = run_stexp(Arc::clone(&spec), depth, crate::common::ncpu(), 1 << 30, if tier.is_thorough() { 1500 } else { 45 });
    st_evidence(&mut run, &out, depth, "mem_init_area / mem_init_zero (7 starts x 7 lengths incl. 0, before/inside/enclosing/abutting/overlapping by exactly one byte, plus 5 requests on the last 32 bytes of the address space), mem_init_zero_anywhere (4 lengths), mem_init_anywhere (3), init_stack (3), mem_resize_section (first 4 non-code areas + absent x 7 sizes), mem_prot (4 masks + invalid), brk(0)/brk(+0x10)/brk(+0x1000) as guest syscalls; 5 initial machines (code at 0x1000 / 0x3000 / 0x400000, generated two-segment ELF, same after init_stack_program_start)");
    run.cov("initial_machines", json!(spec.inits().iter().map(|i| i.0.clone()).collect::<Vec<_>>()));
    run.guard("states", out.states >= 500, format!("{} states", out.states));
    run.guard("initial-machines", spec.inits().len() >= 4, format!("{} initial machines", spec.inits().len()));
    run.assume("rejection of a non-overlapping explicit request is not flagged; zero-length areas cover no address");
    let spec2 = Arc::clone(&spec);
    run.finish(&move |w| confirm_stexp(&*spec2, w))
}
