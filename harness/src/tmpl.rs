//! S0 census of the decode space, templates, operand analysis, placement of memory operands
//! (DESIGN §3.4).

use crate::common::hex;
use crate::native::{CODE, RW};
use ax_x86::auto::generated::SupportedMnemonic;
use iced_x86::{
    Code, ConstantOffsets, Decoder, DecoderOptions, Instruction, InstructionInfoFactory, MemorySize,
    Mnemonic, OpAccess, OpKind, Register,
};
use serde_json::{json, Value};
use std::collections::BTreeMap;
use std::convert::TryFrom;

pub const LEGACY_PREFIXES: [&[u8]; 10] = [
    &[],
    &[0x66],
    &[0x67],
    &[0x66, 0x67],
    &[0xF2],
    &[0xF3],
    &[0x2E],
    &[0x64],
    &[0x65],
    &[0xF0],
];
pub const SIB_MENU: [u8; 16] = [
    0x00, 0x24, 0x25, 0x05, 0x1B, 0x4B, 0x8B, 0xCB, 0xA4, 0xE5, 0x2C, 0x6D, 0xDB, 0x20, 0x63, 0xFF,
];
pub const FILLER: [u8; 12] = [0x10, 0x00, 0x00, 0x00, 0x20, 0x00, 0x00, 0x00, 0x00, 0x00, 0x00, 0x00];

#[derive(Clone, Debug)]
pub struct Tmpl {
    pub bytes: Vec<u8>,
    pub code: Code,
    pub sig: String,
    /// "reg" | "mem" | "none"
    pub form: &'static str,
}

pub struct Dec {
    pub instr: Instruction,
    pub co: ConstantOffsets,
}

pub fn decode_at(bytes: &[u8], ip: u64) -> Option<Dec> {
    let mut d = Decoder::with_ip(64, bytes, ip, DecoderOptions::NONE);
    if !d.can_decode() {
        return None;
    }
    let instr = d.decode();
    if instr.is_invalid() {
        return None;
    }
    let co = d.get_constant_offsets(&instr);
    Some(Dec { instr, co })
}

pub fn supported(m: Mnemonic) -> bool {
    SupportedMnemonic::try_from(m).is_ok()
}

/// Instructions the stub must never execute (OS interface, privileged/segment state, far
/// transfers).  They stay in scope of the emulator-only sweeps (C19).
pub fn native_denied(i: &Instruction) -> bool {
    match i.mnemonic() {
        Mnemonic::Syscall | Mnemonic::Int | Mnemonic::Int1 | Mnemonic::Int3 => return true,
        _ => {}
    }
    if i.is_call_far() || i.is_jmp_far() || i.is_call_far_indirect() || i.is_jmp_far_indirect() {
        return true;
    }
    for k in 0..i.op_count() {
        if i.op_kind(k) == OpKind::Register {
            let r = i.op_register(k);
            if r.is_segment_register() || r.is_cr() || r.is_dr() || r.is_tr() {
                return true;
            }
        }
    }
    false
}

pub fn reg_group(r: Register) -> &'static str {
    if matches!(r, Register::AH | Register::CH | Register::DH | Register::BH) {
        return "H";
    }
    match r.full_register().number() {
        0 => "A",
        1 => "C",
        2 => "D",
        3 => "B",
        4 => "SP",
        5 => "BP",
        6 | 7 => "SI",
        8..=11 => "R8",
        12 => "R12",
        13 => "R13",
        _ => "R14",
    }
}

pub fn reg_class(r: Register) -> String {
    if r == Register::None {
        return "-".into();
    }
    if r.is_xmm() {
        return if r.number() < 8 { "X".into() } else { "X8".into() };
    }
    if r == Register::RIP {
        return "RIP".into();
    }
    if r == Register::EIP {
        return "EIP".into();
    }
    if r.is_gpr() {
        return format!("{}{}", r.size() * 8, reg_group(r));
    }
    format!("{r:?}")
}

pub fn mem_shape(i: &Instruction) -> String {
    format!(
        "b{}i{}s{}d{}g{:?}",
        reg_class(i.memory_base()),
        reg_class(i.memory_index()),
        i.memory_index_scale(),
        i.memory_displ_size(),
        i.segment_prefix()
    )
}

pub fn has_mem(i: &Instruction) -> bool {
    (0..i.op_count()).any(|k| is_mem_kind(i.op_kind(k)))
}
pub fn is_mem_kind(k: OpKind) -> bool {
    matches!(k, OpKind::Memory)
}

pub fn form_of(i: &Instruction) -> &'static str {
    if has_mem(i) {
        "mem"
    } else if (0..i.op_count()).any(|k| i.op_kind(k) == OpKind::Register) {
        "reg"
    } else {
        "none"
    }
}

/// Class signature (DESIGN §3.4): Code, legacy prefix choice, REX presence, operand kinds with
/// register classes, memory shape.
pub fn signature(i: &Instruction, p: usize, rex: bool) -> String {
    let mut s = format!("{:?}|P{}|X{}|", i.code(), p, rex as u8);
    for k in 0..i.op_count() {
        match i.op_kind(k) {
            OpKind::Register => s.push_str(&reg_class(i.op_register(k))),
            OpKind::Memory => s.push('M'),
            o => s.push_str(&format!("{o:?}")),
        }
        s.push(',');
    }
    if has_mem(i) {
        s.push('|');
        s.push_str(&mem_shape(i));
    }
    s
}

/// Register-identity signature for S2: only forms whose memory operand (if any) is `[rbx]`.
pub fn id_signature(i: &Instruction, p: usize) -> Option<String> {
    if p > 1 {
        return None;
    }
    if has_mem(i) {
        if i.memory_base() != Register::RBX
            || i.memory_index() != Register::None
            || i.memory_displ_size() != 0
            || i.segment_prefix() != Register::None
        {
            return None;
        }
    }
    let mut s = format!("{:?}|", i.code());
    let mut any = false;
    for k in 0..i.op_count() {
        match i.op_kind(k) {
            OpKind::Register => {
                any = true;
                s.push_str(&format!("{:?}", i.op_register(k)))
            }
            OpKind::Memory => s.push('M'),
            o => s.push_str(&format!("{o:?}")),
        }
        s.push(',');
    }
    if !any {
        return None;
    }
    Some(s)
}

pub struct Census {
    /// class signature -> template
    pub by_sig: BTreeMap<String, Tmpl>,
    /// register-identity signature -> template
    pub by_id: BTreeMap<String, Tmpl>,
    pub strings: u64,
    pub decoded_supported: u64,
}

fn better(a: &[u8], b: &[u8]) -> bool {
    (a.len(), a) < (b.len(), b)
}

/// One shard of the census: legacy-prefix × REX combinations with index ≡ shard (mod n).
pub fn census_shard(shard: usize, n: usize) -> Value {
    let mut by_sig: BTreeMap<String, Vec<u8>> = BTreeMap::new();
    let mut by_id: BTreeMap<String, Vec<u8>> = BTreeMap::new();
    let mut strings = 0u64;
    let mut supp = 0u64;
    let rexes: Vec<Option<u8>> = std::iter::once(None).chain((0x40..=0x4F).map(Some)).collect();
    let mut combo = 0usize;
    let mut buf: Vec<u8> = Vec::with_capacity(24);
    for (pi, p) in LEGACY_PREFIXES.iter().enumerate() {
        for rex in &rexes {
            combo += 1;
            if (combo - 1) % n != shard {
                continue;
            }
            for op in 0..512u32 {
                for m in 0..256u32 {
                    let needs_sib = (m >> 6) != 3 && (m & 7) == 4;
                    let sibs: &[u8] = if needs_sib { &SIB_MENU } else { &[0u8] };
                    for (si, sib) in sibs.iter().enumerate() {
                        let _ = si;
                        buf.clear();
                        buf.extend_from_slice(p);
                        if let Some(r) = rex {
                            buf.push(*r);
                        }
                        if op >= 256 {
                            buf.push(0x0F);
                        }
                        buf.push((op & 0xFF) as u8);
                        buf.push(m as u8);
                        if needs_sib {
                            buf.push(*sib);
                        }
                        buf.extend_from_slice(&FILLER);
                        strings += 1;
                        let d = match decode_at(&buf, CODE + 0x800) {
                            Some(d) => d,
                            None => continue,
                        };
                        let i = &d.instr;
                        if !supported(i.mnemonic()) {
                            continue;
                        }
                        supp += 1;
                        let bytes = &buf[..i.len()];
                        let sig = signature(i, pi, rex.is_some());
                        match by_sig.get_mut(&sig) {
                            Some(old) => {
                                if better(bytes, old) {
                                    *old = bytes.to_vec();
                                }
                            }
                            None => {
                                by_sig.insert(sig, bytes.to_vec());
                            }
                        }
                        if let Some(ids) = id_signature(i, pi) {
                            match by_id.get_mut(&ids) {
                                Some(old) => {
                                    if better(bytes, old) {
                                        *old = bytes.to_vec();
                                    }
                                }
                                None => {
                                    by_id.insert(ids, bytes.to_vec());
                                }
                            }
                        }
                    }
                }
            }
        }
    }
    json!({
        "strings": strings,
        "supported": supp,
        "by_sig": by_sig.into_iter().map(|(k, v)| json!([k, hex(&v)])).collect::<Vec<_>>(),
        "by_id": by_id.into_iter().map(|(k, v)| json!([k, hex(&v)])).collect::<Vec<_>>(),
    })
}

pub fn make_tmpl(sig: &str, bytes: Vec<u8>) -> Tmpl {
    let d = decode_at(&bytes, CODE + 0x800).expect("template decodes");
    Tmpl {
        code: d.instr.code(),
        form: form_of(&d.instr),
        sig: sig.to_string(),
        bytes,
    }
}

/// Runs the census over all cores and merges the shards deterministically.
pub fn run_census() -> Census {
    let mut c = Census {
        by_sig: BTreeMap::new(),
        by_id: BTreeMap::new(),
        strings: 0,
        decoded_supported: 0,
    };
    let opts = crate::sup::SupOpts {
        hang_secs: 120,
        ..Default::default()
    };
    let n = opts.nshards;
    let mut parts: Vec<Value> = vec![];
    let res = crate::sup::run_sharded(
        &opts,
        |ctx| {
            if ctx.want(ctx.shard as u64) {
                let v = census_shard(ctx.shard, n);
                ctx.emit(&v);
            }
        },
        &mut |_s, v| parts.push(v),
    );
    if !res.events.is_empty() || parts.len() != n {
        crate::common::machinery_error(&format!(
            "census workers failed: {:?} ({} of {} parts)",
            res.events,
            parts.len(),
            n
        ));
    }
    for v in parts {
        c.strings += v["strings"].as_u64().unwrap();
        c.decoded_supported += v["supported"].as_u64().unwrap();
        for (field, map) in [("by_sig", &mut c.by_sig), ("by_id", &mut c.by_id)] {
            for e in v[field].as_array().unwrap() {
                let sig = e[0].as_str().unwrap();
                let bytes = crate::common::unhex(e[1].as_str().unwrap());
                match map.get_mut(sig) {
                    Some(old) => {
                        if better(&bytes, &old.bytes) {
                            *old = make_tmpl(sig, bytes);
                        }
                    }
                    None => {
                        map.insert(sig.to_string(), make_tmpl(sig, bytes));
                    }
                }
            }
        }
    }
    c
}

// ------------------------------------------------------------------------------------------
// operand analysis

#[derive(Clone, Debug, PartialEq, Eq)]
pub enum Loc {
    Gpr(Register),
    Xmm(usize),
    Mem(usize),
}

impl Loc {
    pub fn bits(&self) -> u32 {
        match self {
            Loc::Gpr(r) => (r.size() * 8) as u32,
            Loc::Xmm(_) => 128,
            Loc::Mem(n) => (*n * 8) as u32,
        }
    }
}

pub fn reads(a: OpAccess) -> bool {
    matches!(
        a,
        OpAccess::Read | OpAccess::CondRead | OpAccess::ReadWrite | OpAccess::ReadCondWrite
    )
}
pub fn writes(a: OpAccess) -> bool {
    matches!(
        a,
        OpAccess::Write | OpAccess::CondWrite | OpAccess::ReadWrite | OpAccess::ReadCondWrite
    )
}

pub struct Analysis {
    pub inputs: Vec<Loc>,
    /// full-register numbers (0..16) written (incl. conditionally) according to iced
    pub written_gprs: Vec<usize>,
    pub written_xmms: Vec<usize>,
    pub names_xmm: bool,
    pub mem_read: bool,
    pub mem_write: bool,
    pub mem_size: usize,
}

pub fn analyze(f: &mut InstructionInfoFactory, i: &Instruction) -> Analysis {
    let info = f.info(i);
    let mut inputs: Vec<Loc> = vec![];
    let mut written_gprs = vec![];
    let mut written_xmms = vec![];
    let base = i.memory_base();
    let index = i.memory_index();
    let is_stack = i.is_stack_instruction();
    let mut names_xmm = false;
    for ur in info.used_registers() {
        let r = ur.register();
        if r.is_xmm() {
            names_xmm = true;
        }
        if writes(ur.access()) {
            if r.is_gpr() {
                let n = r.full_register().number();
                if !written_gprs.contains(&n) {
                    written_gprs.push(n);
                }
            } else if r.is_xmm() {
                written_xmms.push(r.number());
            }
        }
        if !reads(ur.access()) {
            continue;
        }
        if r.is_gpr() {
            if has_mem(i) && (same_full(r, base) || same_full(r, index)) {
                continue;
            }
            if is_stack && r.full_register() == Register::RSP {
                continue;
            }
            let l = Loc::Gpr(r);
            if !inputs.contains(&l) {
                inputs.push(l);
            }
        } else if r.is_xmm() {
            let l = Loc::Xmm(r.number());
            if !inputs.contains(&l) {
                inputs.push(l);
            }
        }
    }
    let mut mem_read = false;
    let mut mem_write = false;
    let mut mem_size = 0usize;
    for k in 0..i.op_count() {
        if is_mem_kind(i.op_kind(k)) {
            let a = info.op_access(k);
            mem_read = reads(a);
            mem_write = writes(a);
            mem_size = i.memory_size().size();
            if i.memory_size() == MemorySize::Unknown {
                mem_size = 0;
            }
        }
    }
    if mem_read && mem_size > 0 && mem_size <= 16 {
        inputs.push(Loc::Mem(mem_size));
    }
    Analysis {
        inputs,
        written_gprs,
        written_xmms,
        names_xmm,
        mem_read,
        mem_write,
        mem_size,
    }
}

fn same_full(a: Register, b: Register) -> bool {
    b != Register::None && b.is_gpr() && a.full_register() == b.full_register()
}

pub fn set_gpr(g: &mut [u64; 16], r: Register, v: u64) {
    let n = r.full_register().number();
    let old = g[n];
    g[n] = match r.size() {
        1 => {
            if matches!(r, Register::AH | Register::CH | Register::DH | Register::BH) {
                (old & !0xFF00) | ((v & 0xFF) << 8)
            } else {
                (old & !0xFF) | (v & 0xFF)
            }
        }
        2 => (old & !0xFFFF) | (v & 0xFFFF),
        4 => (old & 0xFFFF_FFFF_0000_0000) | (v & 0xFFFF_FFFF),
        _ => v,
    };
}

pub fn get_gpr(g: &[u64; 16], r: Register) -> u64 {
    let v = g[r.full_register().number()];
    match r.size() {
        1 => {
            if matches!(r, Register::AH | Register::CH | Register::DH | Register::BH) {
                (v >> 8) & 0xFF
            } else {
                v & 0xFF
            }
        }
        2 => v & 0xFFFF,
        4 => v & 0xFFFF_FFFF,
        _ => v,
    }
}

// ------------------------------------------------------------------------------------------
// value alphabets

pub fn alphabet(bits: u32, n: usize) -> Vec<u64> {
    let w = bits.min(64);
    let m: u64 = if w == 64 { u64::MAX } else { (1u64 << w) - 1 };
    let half = w / 2;
    let all = [
        0u64,
        1,
        2,
        (1u64 << half) - 1,
        1u64 << half,
        (1u64 << (w - 1)) - 1,
        1u64 << (w - 1),
        (1u64 << (w - 1)) + 1,
        m - 1,
        m,
        0x5555_5555_5555_5555 & m,
        0xAAAA_AAAA_AAAA_AAAA & m,
        0x0F0F_0F0F_0F0F_0F0F & m,
        ((1u64 << (w - 1)) | 1) & m,
    ];
    // quick order: keep the boundary values that matter most first
    let order = [0usize, 1, 9, 6, 5, 2, 4, 3, 7, 8, 10, 11, 12, 13];
    let mut out = vec![];
    for k in order.iter().take(n.min(14)) {
        let v = all[*k];
        if !out.contains(&v) {
            out.push(v);
        }
    }
    out
}

pub fn alphabet128(n: usize) -> Vec<u128> {
    let all = [
        0u128,
        u128::MAX,
        1,
        1u128 << 127,
        0x5555_5555_5555_5555_5555_5555_5555_5555,
        0xFFFF_FFFF_FFFF_FFFF,
        (0xFFFF_FFFF_FFFF_FFFFu128) << 64,
        0x0123_4567_89AB_CDEF_FEDC_BA98_7654_3210,
    ];
    all.iter().take(n.min(8)).cloned().collect()
}

pub fn imm_alphabet(size: usize) -> Vec<u64> {
    match size {
        1 => vec![0, 1, 0x7F, 0x80, 0xFF],
        2 => vec![0, 1, 0x7FFF, 0x8000, 0xFFFF],
        4 => vec![0, 1, 0x7FFF_FFFF, 0x8000_0000, 0xFFFF_FFFF],
        8 => vec![0, 1, 0x7FFF_FFFF_FFFF_FFFF, 0x8000_0000_0000_0000, u64::MAX, 0x1_0000_0000],
        _ => vec![0],
    }
}

pub fn patch(bytes: &mut [u8], off: usize, size: usize, v: u64) {
    for k in 0..size {
        bytes[off + k] = (v >> (8 * k)) as u8;
    }
}

// ------------------------------------------------------------------------------------------
// placement of the memory operand

pub struct Placed {
    pub bytes: Vec<u8>,
    pub ea: u64,
}

fn inv_odd(a: u64) -> u64 {
    // Newton iteration for the inverse modulo 2^64
    let mut x = a;
    for _ in 0..6 {
        x = x.wrapping_mul(2u64.wrapping_sub(a.wrapping_mul(x)));
    }
    x
}

/// Chooses displacement bytes and base/index register values such that the effective address of
/// the memory operand is `target` (which must be 8-aligned when the shape needs divisibility).
/// `idx_val` is the value wanted in the index register when it is free, `disp_val` the
/// displacement wanted when the shape has both a free base and a displacement.
/// Returns None when the shape cannot reach the target (e.g. absolute disp32 with a far
/// segment base).
pub fn place(
    bytes: &[u8],
    ip: u64,
    target: u64,
    idx_val: u64,
    disp_val: i64,
    high_garbage: u64,
    gpr: &mut [u64; 16],
    fs: u64,
    gs: u64,
) -> Option<Placed> {
    let d = decode_at(bytes, ip)?;
    let i = &d.instr;
    let mut out = bytes.to_vec();
    let seg_base = match i.memory_segment() {
        Register::FS => fs,
        Register::GS => gs,
        _ => 0,
    };
    let base = i.memory_base();
    let index = i.memory_index();
    let scale = i.memory_index_scale() as u64;
    let dsz = d.co.displacement_size();
    let doff = d.co.displacement_offset();
    // address size: 32-bit when a 32-bit register is used or the 0x67 prefix applies
    let a32 = base.size() == 4
        || index.size() == 4
        || (base == Register::None && index == Register::None && addr32_prefix(bytes, i));
    let amask: u64 = if a32 { 0xFFFF_FFFF } else { u64::MAX };
    let tprime = target.wrapping_sub(seg_base) & amask;
    let next_ip = ip + i.len() as u64;
    let sext = |v: i64, size: usize| -> i64 {
        match size {
            1 => v as i8 as i64,
            4 => v as i32 as i64,
            _ => v,
        }
    };
    let fits = |v: i64, size: usize| -> bool { sext(v, size) == v };

    if base == Register::RIP || base == Register::EIP {
        let disp = tprime.wrapping_sub(next_ip & amask) as i64;
        let disp = if a32 { disp as u32 as i32 as i64 } else { disp };
        if dsz != 4 || !fits(disp, 4) {
            return None;
        }
        patch(&mut out, doff, 4, disp as u64);
        return finish(out, ip, target, gpr, fs, gs);
    }
    if base == Register::None && index == Register::None {
        // absolute: disp32 (sign-extended), or moffs (64 / 32 bit)
        match dsz {
            8 => patch(&mut out, doff, 8, tprime),
            4 => {
                if a32 {
                    patch(&mut out, doff, 4, tprime);
                } else {
                    let v = tprime as i64;
                    if !fits(v, 4) {
                        return None;
                    }
                    patch(&mut out, doff, 4, v as u64);
                }
            }
            _ => return None,
        }
        return finish(out, ip, target, gpr, fs, gs);
    }
    // displacement value
    let disp: i64 = if dsz == 0 {
        0
    } else if fits(disp_val, dsz) {
        disp_val
    } else {
        sext(disp_val, dsz)
    };
    let disp = if dsz != 0 && base != Register::None && index != Register::None && same_full(base, index) && scale == 1 {
        disp & !1 // (1+scale)=2: parity must match an even target
    } else {
        disp
    };
    if dsz != 0 {
        patch(&mut out, doff, dsz, disp as u64);
    }
    let need = tprime.wrapping_sub(disp as u64) & amask;
    let hi = if a32 { high_garbage & 0xFFFF_FFFF_0000_0000 } else { 0 };
    if base != Register::None && index != Register::None && same_full(base, index) {
        let k = 1 + scale;
        let v = if k % 2 == 1 {
            need.wrapping_mul(inv_odd(k))
        } else {
            if need % 2 != 0 {
                return None;
            }
            need / 2
        };
        gpr[base.full_register().number()] = (v & amask) | hi;
    } else if base != Register::None && index != Register::None {
        let iv = idx_val & amask;
        gpr[index.full_register().number()] = iv | hi;
        let b = need.wrapping_sub(iv.wrapping_mul(scale)) & amask;
        gpr[base.full_register().number()] = b | hi;
    } else if base != Register::None {
        gpr[base.full_register().number()] = need | hi;
    } else {
        // index only
        if need % scale != 0 {
            return None;
        }
        // any of the `scale` solutions modulo 2^A works; take the small one
        gpr[index.full_register().number()] = (need / scale) | hi;
    }
    finish(out, ip, target, gpr, fs, gs)
}

pub fn addr32_prefix(bytes: &[u8], i: &Instruction) -> bool {
    // legacy prefixes precede REX/opcode; scan the prefix run
    for b in bytes.iter().take(i.len()) {
        match *b {
            0x67 => return true,
            0x66 | 0xF2 | 0xF3 | 0x2E | 0x36 | 0x3E | 0x26 | 0x64 | 0x65 | 0xF0 => continue,
            _ => return false,
        }
    }
    false
}

/// Independent evaluation of the effective address (used to validate every placement).
pub fn eval_ea(bytes: &[u8], ip: u64, gpr: &[u64; 16], fs: u64, gs: u64) -> Option<u64> {
    let d = decode_at(bytes, ip)?;
    let i = &d.instr;
    let seg_base = match i.memory_segment() {
        Register::FS => fs,
        Register::GS => gs,
        _ => 0,
    };
    let base = i.memory_base();
    let index = i.memory_index();
    let a32 = base.size() == 4
        || index.size() == 4
        || (base == Register::None && index == Register::None && addr32_prefix(bytes, i));
    let amask: u64 = if a32 { 0xFFFF_FFFF } else { u64::MAX };
    let mut a: u64 = 0;
    if base == Register::RIP || base == Register::EIP {
        // iced folds next_ip into the displacement for RIP-relative operands
        a = i.memory_displacement64();
    } else {
        if base != Register::None {
            a = a.wrapping_add(gpr[base.full_register().number()]);
        }
        if index != Register::None {
            a = a.wrapping_add(
                gpr[index.full_register().number()].wrapping_mul(i.memory_index_scale() as u64),
            );
        }
        a = a.wrapping_add(i.memory_displacement64());
    }
    Some((a & amask).wrapping_add(seg_base))
}

fn finish(out: Vec<u8>, ip: u64, target: u64, gpr: &[u64; 16], fs: u64, gs: u64) -> Option<Placed> {
    let ea = eval_ea(&out, ip, gpr, fs, gs)?;
    if ea != target {
        return None;
    }
    Some(Placed { bytes: out, ea })
}

pub const DEFAULT_TARGET: u64 = RW + 0x800;
