//! C17 — stack initialisation yields the System V entry frame for any argv/envp.

use crate::common::{Run, Tier};
use crate::emu::{guarded, StepOut};
use crate::enumrun::*;
use ax_x86::axecutor::Axecutor;
use ax_x86::helpers::syscalls::Syscall;
use ax_x86::state::registers::SupportedRegister as SR;
use serde_json::json;

const SIZES: [u64; 8] = [0, 8, 16, 64, 0x100, 0x1000, 0x1001, 0x2000];
const LAYOUTS: [&str; 4] = ["code@0x1000", "elf@0x400000", "areas-at-0x1000-0x3000", "after-handle_syscalls"];

const SHAPES: usize = 10;

fn make_string(shape: usize, tag: &str) -> String {
    let lens = [0usize, 1, 7, 8, 15, 16, 17, 300];
    let k = shape % SHAPES;
    if k == 8 {
        // multi-byte characters: 3 chars, 9 bytes per round (byte length != char count)
        return format!("{tag}=\u{e4}\u{20ac}\u{1d11e}\u{e4}\u{20ac}\u{1d11e}");
    }
    let n = if k == 9 { 0x1001 } else { lens[k] }; // 9: longer than a page
    let mut s = String::new();
    let pat: Vec<char> = tag.chars().chain("=abcdefghijklmnopqrstuvwxyz0123456789".chars()).collect();
    for i in 0..n {
        s.push(pat[i % pat.len()]);
    }
    s
}

fn pops(n: usize) -> Vec<u8> {
    let mut c = vec![0x58u8; n]; // pop rax
    c.extend_from_slice(&[0x90; 8]);
    c
}

fn build(layout: usize, npops: usize) -> Option<(Axecutor, Vec<(u64, u64)>)> {
    let code = pops(npops);
    match layout {
        0 => {
            let ax = Axecutor::new(&code, 0x1000, 0x1000).ok()?;
            Some((ax, vec![(0x1000, code.len() as u64)]))
        }
        1 => {
            let spec = crate::elfgen::ElfSpec {
                e_type: 2,
                entry: 0x400000 + 0x1000,
                segs: vec![
                    crate::elfgen::Seg { p_type: crate::elfgen::PT_LOAD, flags: 5, vaddr: 0x401000, file: code.clone(), memsz: code.len() as u64, align: 0x1000 },
                    crate::elfgen::Seg { p_type: crate::elfgen::PT_LOAD, flags: 6, vaddr: 0x403000, file: vec![1, 2, 3, 4], memsz: 0x100, align: 0x1000 },
                ],
                syms: None,
            };
            let ax = Axecutor::from_binary(&crate::elfgen::write(&spec)).ok()?;
            let image = ax.verif_areas().iter().map(|a| (a.start, a.length)).collect();
            Some((ax, image))
        }
        2 => {
            let mut ax = Axecutor::new(&code, 0x10000, 0x10000).ok()?;
            ax.mem_init_zero(0x1000, 0x1000).ok()?;
            ax.mem_init_zero(0x2000, 0x1000).ok()?;
            Some((ax, vec![(0x10000, code.len() as u64), (0x1000, 0x1000), (0x2000, 0x1000)]))
        }
        _ => {
            let mut ax = Axecutor::new(&code, 0x1000, 0x1000).ok()?;
            ax.handle_syscalls(vec![Syscall::Brk, Syscall::Exit, Syscall::ArchPrctl, Syscall::Pipe]).ok()?;
            Some((ax, vec![(0x1000, code.len() as u64)]))
        }
    }
}

fn overlaps(a: u64, alen: u64, b: u64, blen: u64) -> bool {
    alen != 0 && blen != 0 && (a as u128) < b as u128 + blen as u128 && (b as u128) < a as u128 + alen as u128
}

fn check(argc: usize, envc: usize, pattern: usize, size: u64, layout: usize) -> Vec<(String, String)> {
    let mut viol: Vec<(String, String)> = vec![];
    let mut v = |k: String, w: String| {
        if !viol.iter().any(|(kk, _)| *kk == k) {
            viol.push((k, w));
        }
    };
    // patterns >= 100 (seed C17j: a bounded placement search): one very long first argument, then
    // very short strings - the placement of a short string walks past everything placed before it
    let mk = |idx: usize, tag: String| -> String {
        if pattern >= 100 {
            let n = if idx == 0 { if pattern == 100 { 40_000 } else { 70_000 } } else { [0usize, 1, 2, 1][idx % 4] };
            let pat: Vec<char> = tag.chars().chain("=abcdefghijklmnopqrstuvwxyz".chars()).collect();
            (0..n).map(|i| pat[i % pat.len()]).collect()
        } else {
            make_string(pattern + idx, &tag)
        }
    };
    let argv: Vec<String> = (0..argc).map(|j| mk(j, format!("arg{j}"))).collect();
    let envp: Vec<String> = (0..envc).map(|j| mk(3 + j, format!("ENV{j}"))).collect();
    let frame_words = argc + envc + 3;
    let sc = if size < (frame_words as u64) * 8 + 16 { "size<frame" } else { "size>=frame" };
    let ctx = format!("argc {argc} envc {envc} pattern {pattern} size {size:#x} layout {}", LAYOUTS[layout]);
    let (mut ax, image) = match build(layout, frame_words + 2) {
        Some(x) => x,
        None => return viol,
    };
    for k in 0..16 {
        ax.reg_write_64(crate::emu::GPR64[k], crate::emu::filler_gpr(k)).unwrap();
    }
    let r = guarded(|| ax.init_stack_program_start(size, argv.clone(), envp.clone()).map_err(|e| e.to_string()));
    let stack_start = match r {
        Err(p) => {
            v(format!("stack-init|panic@{}|{sc}", p.tag()), format!("{ctx}: init_stack_program_start panicked: {}", crate::emu::first_line(&p.msg)));
            return viol;
        }
        Ok(Err(e)) => {
            v(format!("stack-init|failed|{sc}"), format!("{ctx}: init_stack_program_start failed: {}", crate::emu::first_line(&e)));
            return viol;
        }
        Ok(Ok(s)) => s,
    };
    let areas = ax.verif_areas();
    // areas pairwise disjoint, nothing collides with the image
    for i in 0..areas.len() {
        for j in i + 1..areas.len() {
            if overlaps(areas[i].start, areas[i].length, areas[j].start, areas[j].length) {
                v(format!("stack-init|areas-overlap|{sc}"), format!("{ctx}: areas {:?}@{:#x}+{:#x} and {:?}@{:#x}+{:#x} overlap", areas[i].name, areas[i].start, areas[i].length, areas[j].name, areas[j].start, areas[j].length));
            }
        }
    }
    let rsp0 = ax.reg_read_64(SR::RSP).unwrap();
    if rsp0 % 16 != 0 {
        v(format!("stack-init|rsp-misaligned|{sc}"), format!("{ctx}: entry RSP {rsp0:#x} is not 16-byte aligned"));
    }
    // the area the returned start address names (its label is not part of the property)
    let stack_area = areas.iter().find(|a| a.start == stack_start);
    let stack_area = match stack_area {
        Some(a) => a.clone(),
        None => {
            v(format!("stack-init|no-stack-area|{sc}"), format!("{ctx}: no area starts at the returned address {stack_start:#x}"));
            return viol;
        }
    };
    // space left below RSP
    let in_stack = rsp0 >= stack_area.start && rsp0 <= stack_area.start + stack_area.length;
    if !in_stack {
        v(format!("stack-init|rsp-outside-stack|{sc}"), format!("{ctx}: RSP {rsp0:#x} outside the stack area [{:#x},+{:#x})", stack_area.start, stack_area.length));
        return viol;
    }
    let below = rsp0 - stack_area.start;
    if below + 16 < size {
        v(
            format!("stack-init|space-below-rsp-smaller-than-requested|{sc}"),
            format!("{ctx}: {below:#x} bytes lie between the stack start and RSP; {size:#x} were requested (the frame of {} words was carved out of the request)", frame_words),
        );
    }
    if stack_area.access & 2 == 0 {
        v(format!("stack-init|stack-not-writable|{sc}"), format!("{ctx}: stack area access {}", stack_area.access));
    }
    // pop the frame with guest instructions
    let mut popped: Vec<u64> = vec![];
    for _ in 0..frame_words {
        match crate::emu::step(&mut ax) {
            StepOut::Ok(_) => popped.push(ax.reg_read_64(SR::RAX).unwrap()),
            StepOut::Err(e) => {
                v(format!("stack-init|pop-failed|{sc}"), format!("{ctx}: guest pop #{} failed: {}", popped.len(), crate::emu::first_line(&e)));
                return viol;
            }
            StepOut::Panic(p) => {
                v(format!("stack-init|panic@{}|{sc}", p.tag()), format!("{ctx}: guest pop panicked"));
                return viol;
            }
        }
    }
    if popped[0] != argc as u64 {
        v(format!("stack-init|wrong-argc|{sc}"), format!("{ctx}: first pop yields {:#x}, argc is {argc}", popped[0]));
        return viol;
    }
    let read_cstr = |ax: &Axecutor, p: u64, max: usize| -> Option<Vec<u8>> {
        let mut out = vec![];
        for i in 0..=max as u64 {
            let b = ax.mem_read_8(p.wrapping_add(i)).ok()? as u8;
            if b == 0 {
                return Some(out);
            }
            out.push(b);
        }
        None
    };
    let mut ptrs: Vec<(u64, usize)> = vec![];
    for (j, s) in argv.iter().enumerate() {
        let p = popped[1 + j];
        match read_cstr(&ax, p, s.len()) {
            Some(b) if b == s.as_bytes() => ptrs.push((p, s.len() + 1)),
            other => v(format!("stack-init|wrong-argv-string|{sc}"), format!("{ctx}: argv[{j}] pointer {p:#x} reads {:?}, expected {:?}", other.map(|b| String::from_utf8_lossy(&b).to_string()), s)),
        }
    }
    if popped[1 + argc] != 0 {
        v(format!("stack-init|argv-not-null-terminated|{sc}"), format!("{ctx}: word after argv is {:#x}", popped[1 + argc]));
    }
    for (j, s) in envp.iter().enumerate() {
        let p = popped[2 + argc + j];
        match read_cstr(&ax, p, s.len()) {
            Some(b) if b == s.as_bytes() => ptrs.push((p, s.len() + 1)),
            other => v(format!("stack-init|wrong-envp-string|{sc}"), format!("{ctx}: envp[{j}] pointer {p:#x} reads {:?}, expected {:?}", other.map(|b| String::from_utf8_lossy(&b).to_string()), s)),
        }
    }
    if popped[2 + argc + envc] != 0 {
        v(format!("stack-init|envp-not-null-terminated|{sc}"), format!("{ctx}: word after envp is {:#x}", popped[2 + argc + envc]));
    }
    // strings: mapped, writable, mutually disjoint, not in the image, not in the frame
    for (n, (p, l)) in ptrs.iter().enumerate() {
        let a = areas.iter().find(|a| a.start <= *p && (*p as u128 + *l as u128) <= a.start as u128 + a.length as u128);
        match a {
            Some(a) if a.access & 2 != 0 => {}
            Some(a) => v(format!("stack-init|string-not-writable|{sc}"), format!("{ctx}: string {n} lies in area {:?} with access {}", a.name, a.access)),
            None => v(format!("stack-init|string-not-in-one-area|{sc}"), format!("{ctx}: string {n} at {p:#x}+{l} is not inside one area")),
        }
        for (q, m) in ptrs.iter().skip(n + 1) {
            if overlaps(*p, *l as u64, *q, *m as u64) {
                v(format!("stack-init|strings-overlap|{sc}"), format!("{ctx}: strings at {p:#x} and {q:#x} overlap"));
            }
        }
        for (is, il) in &image {
            if overlaps(*p, *l as u64, *is, *il) {
                v(format!("stack-init|string-collides-with-image|{sc}"), format!("{ctx}: string at {p:#x} lies in the program image"));
            }
        }
    }
    for (is, il) in &image {
        if overlaps(stack_area.start, stack_area.length, *is, *il) {
            v(format!("stack-init|stack-collides-with-image|{sc}"), format!("{ctx}: stack collides with the program image"));
        }
    }
    viol
}

fn gen(maxc: usize) -> impl Fn(&mut EnumCtx) + Sync {
    move |e: &mut EnumCtx| {
        // stacks larger than the gaps between the image, the strings and the first candidates:
        // every candidate start below the image swallows something and must be skipped
        for size in [0x10_0000u64, 0x3F_F000, 0x40_0000] {
            for argc in 0..3usize {
                for envc in 0..3usize {
                    for pattern in [0usize, 9] {
                        for layout in 0..LAYOUTS.len() {
                            if !e.next() {
                                continue;
                            }
                            e.describe("stack-init", &format!("argc {argc} envc {envc} pattern {pattern} size {size:#x} layout {}", LAYOUTS[layout]));
                            let viol = check(argc, envc, pattern, size, layout);
                            e.count("transitions", (argc + envc + 3) as u64);
                            let mut f = crate::common::Fp::new();
                            f.u64(argc as u64);
                            f.u64(envc as u64);
                            f.u64(pattern as u64);
                            f.u64(size);
                            f.u64(layout as u64);
                            e.state(f.0);
                            f.u64(viol.len() as u64);
                            e.outcome(f.0);
                            for (k, w) in viol {
                                e.finding(&k, || w.clone(), || json!({"argc": argc, "envc": envc, "pattern": pattern, "size": size, "layout": LAYOUTS[layout]}));
                            }
                        }
                    }
                }
            }
        }
        for size in [0x1000u64, 0x10_0000] {
            for argc in 1..4usize {
                for envc in 0..3usize {
                    for pattern in [100usize, 101] {
                        for layout in 0..LAYOUTS.len() {
                            if !e.next() {
                                continue;
                            }
                            e.describe("stack-init", &format!("argc {argc} envc {envc} pattern {pattern} size {size:#x} layout {}", LAYOUTS[layout]));
                            let viol = check(argc, envc, pattern, size, layout);
                            e.count("transitions", (argc + envc + 3) as u64);
                            let mut f = crate::common::Fp::new();
                            f.u64(argc as u64);
                            f.u64(envc as u64);
                            f.u64(pattern as u64);
                            f.u64(size);
                            f.u64(layout as u64);
                            e.state(f.0);
                            f.u64(viol.len() as u64);
                            e.outcome(f.0);
                            for (k, w) in viol {
                                e.finding(&k, || w.clone(), || json!({"argc": argc, "envc": envc, "pattern": pattern, "size": size, "layout": LAYOUTS[layout]}));
                            }
                        }
                    }
                }
            }
        }
        for argc in 0..=maxc {
            for envc in 0..=maxc {
                for pattern in 0..SHAPES {
                    for size in SIZES {
                        for layout in 0..LAYOUTS.len() {
                            if !e.next() {
                                continue;
                            }
                            e.describe("stack-init", &format!("argc {argc} envc {envc} pattern {pattern} size {size:#x} layout {}", LAYOUTS[layout]));
                            let viol = check(argc, envc, pattern, size, layout);
                            e.count("transitions", (argc + envc + 3) as u64);
                            let mut f = crate::common::Fp::new();
                            f.u64(argc as u64);
                            f.u64(envc as u64);
                            f.u64(pattern as u64);
                            f.u64(size);
                            f.u64(layout as u64);
                            e.state(f.0);
                            f.u64(viol.len() as u64);
                            e.outcome(f.0);
                            e.sample(|| json!({"argc": argc, "envc": envc, "string_pattern": pattern, "stack_size": size, "layout": LAYOUTS[layout], "violations": viol.len()}));
                            for (k, w) in viol {
                                e.finding(&k, || w.clone(), || json!({"argc": argc, "envc": envc, "pattern": pattern, "size": size, "layout": LAYOUTS[layout]}));
                            }
                        }
                    }
                }
            }
        }
    }
}

pub fn run(tier: Tier) -> i32 {
    let mut run = Run::new("C17", tier.clone());
    let maxc = if tier.is_thorough() { 12 } else { 8 };
    let o = EnumOpts {
        sup: crate::sup::SupOpts {
            hang_secs: 20,
            alloc_limit: 1 << 30,
            ..Default::default()
        },
        wall_cap_secs: if tier.is_thorough() { 1500 } else { 45 },
        crash_subject: "stack-init".into(),
    };
    let g = gen(maxc);
    if let Some(art) = crate::common::replay_artefact() {
        return crate::common::finish_replay("C17", &art, &|ws| confirm_enum(&o, &g, ws));
    }
    let out = run_enum(&o, &g);
    enum_evidence(&mut run, &out, "one case = (argc, envc in 0..=N, one of 10 rotations of the string shapes {empty, 1, 7, 8, 15, 16, 17, 300 bytes, multi-byte UTF-8 characters, 0x1001 bytes}, stack size in {0, 8, 16, 64, 0x100, 0x1000, 0x1001, 0x2000}, one of 4 layouts), plus stack sizes {1 MiB, 4 MiB - 4 KiB, 4 MiB} x argc, envc <= 2 x 2 patterns x 4 layouts, plus a first argument of 40 000 / 70 000 bytes followed by strings of 0..2 bytes (argc 1..3, envc 0..2, 2 stack sizes, 4 layouts); the frame is read back by executing guest `pop rax` instructions and by following the pointers; areas from the structured view; states = distinct configurations; distinct_nontrivial = distinct (configuration, number of violated clauses)");
    run.cov("max_argc_envc", json!(maxc));
    run.guard("cases", out.cases >= 5_000 || out.capped, format!("{} configurations", out.cases));
    run.assume("<= 16 bytes of alignment slack accepted for the space below RSP; contents of padding not checked");
    let code = run.finish_batch(&|ws| confirm_enum(&o, &g, ws));
    code
}
